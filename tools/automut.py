#!/usr/bin/env python3
"""Automatic mutation sweep (sensitivity of the checks beyond the hand-written mutants).

  automut.py gen                      -> /tmp/automut/mutants.jsonl (all single-line mutants of /repo/src, non-test code)
  automut.py run [--lanes N] [--sample K] [--seed S] [--only FILE] [--scale PCT]
                                      -> appends one JSON line per mutant to /verif/mutants/auto/results.jsonl
  automut.py report                   -> summary of results.jsonl (killed by / killed by the repository's tests / survivors)

Per mutant (in a scratch copy /tmp/automut/lane<i>/{repo,verif/harness}, own target directory per lane):
  1. build the harness against the mutated copy (a compile error = "stillborn", skipped);
  2. run the quick checks mapped to the mutated file at VERIF_SCALE_PCT=<scale>, stop at the first exit 1 -> "killed";
  3. survivors: run the repository's own test suite; failing -> "killed_by_repo_tests" (not a realistic change);
  4. survivors of both: every one of the 18 quick checks at full scale; exit 1 -> "killed_full", else "SURVIVED".
Nothing here is registered in MANIFEST.json; scratch directories are removed at the end of a run (--keep to keep)."""
import json, os, re, subprocess, sys, random, shutil, hashlib, time
from concurrent.futures import ThreadPoolExecutor

REPO = '/repo'
WORK = '/tmp/automut'
OUT = '/verif/mutants/auto'
ALL = ['C%02d' % i for i in range(1, 19)]
FILEMAP = {
    'src/internal/path.rs': 'C09 C01 C10',
    'src/internal/directory.rs': 'C01 C03 C07 C04 C15 C02',
    'src/internal/direntry.rs': 'C04 C16 C03 C17 C05',
    'src/internal/alloc.rs': 'C03 C15 C02 C11 C13 C04',
    'src/internal/minialloc.rs': 'C03 C15 C08 C02 C11 C04',
    'src/internal/chain.rs': 'C06 C08 C03 C04 C11',
    'src/internal/minichain.rs': 'C06 C08 C03 C04 C11',
    'src/internal/sector.rs': 'C03 C02 C18 C04 C13',
    'src/internal/stream.rs': 'C06 C12 C13 C08 C18 C07',
    'src/internal/stream_buffer.rs': 'C06 C12 C13 C18',
    'src/internal/entry.rs': 'C01 C14 C05 C17',
    'src/internal/header.rs': 'C16 C05 C04 C02',
    'src/internal/timestamp.rs': 'C17',
    'src/internal/version.rs': 'C16 C04 C01',
    'src/internal/objtype.rs': 'C04 C16 C05',
    'src/internal/color.rs': 'C04 C16',
    'src/internal/consts.rs': 'C03 C04 C16 C01',
    'src/internal/validate.rs': 'C16',
    'src/lib.rs': 'C01 C10 C16 C05 C04 C17 C02 C09',
}
SKIP_FILES = {'src/internal/sync.rs', 'src/internal/macros.rs', 'src/internal/mod.rs'}

SWAPS = [
    (r' < ', ' <= '), (r' <= ', ' < '), (r' > ', ' >= '), (r' >= ', ' > '),
    (r' == ', ' != '), (r' != ', ' == '), (r' && ', ' || '), (r' \|\| ', ' && '),
    (r' \+ ', ' - '), (r' - ', ' + '), (r' \* ', ' / '), (r' / ', ' * '), (r' % ', ' / '),
    (r'\.min\(', '.max('), (r'\.max\(', '.min('),
    (r'saturating_sub', 'wrapping_sub'), (r'saturating_add', 'wrapping_add'),
    (r'\btrue\b', 'false'), (r'\bfalse\b', 'true'),
    (r' \+ 1\b', ''), (r' - 1\b', ''), (r' as u32', ' as u16 as u32'),
    (r'\.is_some\(\)', '.is_none()'), (r'\.is_none\(\)', '.is_some()'),
    (r'\.is_empty\(\)', '.is_empty() == false'),
    (r'SeekFrom::Start', 'SeekFrom::Current'),
    (r'write_all\(', 'write('),
    (r'read_exact\(', 'read('),
]

def code_lines(path):
    """(lineno, text) of non-test code lines."""
    lines = open(path).read().split('\n')
    out = []
    for i, l in enumerate(lines):
        s = l.strip()
        if s.startswith('#[cfg(test)]') and i + 1 < len(lines) and lines[i + 1].strip().startswith('mod tests'):
            break
        if s.startswith('mod tests'):
            break
        if not s or s.startswith('//') or s.startswith('#[') or s.startswith('use ') or s.startswith('pub use '):
            continue
        if 'debug_assert' in s:
            continue
        out.append((i, l))
    return lines, out

def gen():
    muts = []
    for root, _, files in os.walk(os.path.join(REPO, 'src')):
        for f in sorted(files):
            p = os.path.join(root, f)
            rel = os.path.relpath(p, REPO)
            if not f.endswith('.rs') or rel in SKIP_FILES:
                continue
            lines, cl = code_lines(p)
            in_doc = False
            for i, l in cl:
                s = l.strip()
                code = l.split('//')[0] if '"' not in l else l
                # operator / token swaps (every occurrence separately)
                for pat, rep in SWAPS:
                    for m in re.finditer(pat, code):
                        # keep string literals intact: skip matches inside quotes
                        if code[:m.start()].count('"') % 2 == 1:
                            continue
                        new = code[:m.start()] + rep + code[m.end():]
                        muts.append((rel, i, 'swap:' + pat.strip('\\ ').replace('\\', ''), l, new))
                # delete a one-line statement ending with ?; or a plain call statement
                if re.match(r'^\s*[A-Za-z_][\w\.\(\)\[\]&:, \*\+\-<>!=|/%\'"{}]*\?;\s*$', l) and not s.startswith('let ') and not s.startswith('return'):
                    muts.append((rel, i, 'del_stmt', l, ''))
                elif re.match(r'^\s*self\.[\w\.]+\([^;]*\);\s*$', l) or re.match(r'^\s*self\.[\w\.\[\]]+ [\+\-]?= [^;]*;\s*$', l):
                    muts.append((rel, i, 'del_stmt', l, ''))
                # if cond { -> if true / if false
                m = re.match(r'^(\s*(?:\} else )?if )(?!let )(.*)( \{\s*)$', l)
                if m:
                    muts.append((rel, i, 'if_false', l, m.group(1) + 'false && (' + m.group(2) + ')' + m.group(3)))
                    muts.append((rel, i, 'if_true', l, m.group(1) + 'true || (' + m.group(2) + ')' + m.group(3)))
                # integer literals n -> n+1 (not in attribute/const-array contexts)
                for m in re.finditer(r'(?<![\w\.])(\d+)(?![\w\.])', code):
                    if code[:m.start()].count('"') % 2 == 1:
                        continue
                    n = int(m.group(1))
                    if n > 100000:
                        continue
                    new = code[:m.start()] + str(n + 1) + code[m.end():]
                    muts.append((rel, i, 'lit+1', l, new))
    os.makedirs(WORK, exist_ok=True)
    seen = set()
    with open(os.path.join(WORK, 'mutants.jsonl'), 'w') as fo:
        for rel, i, op, old, new in muts:
            if new == old:
                continue
            h = hashlib.sha1(f'{rel}|{i}|{old}|{new}'.encode()).hexdigest()[:10]
            if h in seen:
                continue
            seen.add(h)
            fo.write(json.dumps({'id': h, 'file': rel, 'line': i + 1, 'op': op, 'old': old, 'new': new}) + '\n')
    print(len(seen), 'mutants ->', os.path.join(WORK, 'mutants.jsonl'))

def sh(cmd, env=None, timeout=None, cwd=None):
    e = dict(os.environ)
    e.update(env or {})
    try:
        r = subprocess.run(cmd, shell=True, env=e, cwd=cwd, stdout=subprocess.PIPE, stderr=subprocess.STDOUT, timeout=timeout)
        return r.returncode, r.stdout.decode(errors='replace')
    except subprocess.TimeoutExpired as ex:
        return 124, (ex.stdout or b'').decode(errors='replace')

def prepare_lane(lane):
    W = f'{WORK}/lane{lane}'
    os.makedirs(f'{W}/verif/harness', exist_ok=True)
    sh(f'rsync -a --delete --exclude target --exclude .git {REPO}/ {W}/repo/')
    sh(f'rsync -a --delete --exclude target --exclude fuzz /verif/harness/ {W}/verif/harness/')
    return W

def run_checks(W, ids, scale, extra_env=None):
    """returns (killer id or None, report line)"""
    for cid in ids:
        env = {'VERIF_REPLAY_DIR': f'{W}/out/replays', 'VERIF_EVIDENCE_DIR': f'{W}/out/evidence', 'VERIF_SCRATCH': f'{W}/out/scratch',
               'VERIF_SCALE_PCT': str(scale), 'VERIF_DIR': '/verif'}
        env.update(extra_env or {})
        rc, out = sh(f'ulimit -v 20000000; {W}/out/cfbverif check {cid} quick', env=env, timeout=3600)
        if rc == 1:
            line = ''
            for l in out.split('\n'):
                if re.match(r'^(worker|replay|extra|VIOLATION)', l):
                    line = l[:240]
                    break
            return cid, line
        # exit 2 (inconclusive) is not a kill
    return None, ''

def one(lane, mut, scale, workers):
    W = f'{WORK}/lane{lane}'
    tgt = f'{WORK}/target{lane}'
    res = dict(mut)
    t0 = time.time()
    src = f'{W}/repo/{mut["file"]}'
    orig = open(f'{REPO}/{mut["file"]}').read()
    lines = orig.split('\n')
    assert lines[mut['line'] - 1] == mut['old'], 'source changed since gen'
    lines[mut['line'] - 1] = mut['new']
    open(src, 'w').write('\n'.join(lines))
    env = {'CARGO_TARGET_DIR': tgt, 'CARGO_NET_OFFLINE': 'true'}
    try:
        rc, out = sh('cargo build --profile checked 2>&1 | tail -5', env=env, cwd=f'{W}/verif/harness', timeout=1200)
        shutil.rmtree(f'{W}/out', ignore_errors=True)
        os.makedirs(f'{W}/out', exist_ok=True)
        if 'error' in out and 'Finished' not in out:
            res['verdict'] = 'stillborn'
            return res
        shutil.copy(f'{tgt}/checked/cfbverif', f'{W}/out/cfbverif')
        ids = FILEMAP.get(mut['file'], 'C01 C04').split()
        xenv = {'VERIF_WORKERS': str(workers)} if workers else {}
        k, line = run_checks(W, ids, scale, xenv)
        if k:
            res.update(verdict='killed', by=k, report=line)
            return res
        rc, out = sh('cargo test --workspace --no-fail-fast --offline 2>&1 | grep -E "^test result|error(\\[|:)"', env=dict(env, CARGO_TARGET_DIR=tgt + 't'), cwd=f'{W}/repo', timeout=420)
        failed = sum(int(x) for x in re.findall(r'(\d+) failed', out))
        if failed or 'error' in out or 'test result' not in out:
            res.update(verdict='killed_by_repo_tests', tests_failed=failed)
            return res
        # full scale: the mapped checks (all 18 with AUTOMUT_ALL=1)
        rest = [c for c in ALL if c not in ids] if os.environ.get('AUTOMUT_ALL') else []
        k, line = run_checks(W, ids + rest, 100, xenv)
        if k:
            res.update(verdict='killed_full', by=k, report=line)
        else:
            res.update(verdict='SURVIVED')
        return res
    finally:
        open(src, 'w').write(orig)
        res['wall_s'] = round(time.time() - t0, 1)

def run(argv):
    lanes, sample, seed, only, scale, keep, workers = 3, 0, 1, None, 25, False, 0
    it = iter(argv)
    for a in it:
        if a == '--lanes': lanes = int(next(it))
        elif a == '--sample': sample = int(next(it))
        elif a == '--seed': seed = int(next(it))
        elif a == '--only': only = next(it)
        elif a == '--scale': scale = int(next(it))
        elif a == '--workers': workers = int(next(it))
        elif a == '--keep': keep = True
    muts = [json.loads(l) for l in open(f'{WORK}/mutants.jsonl')]
    if only:
        muts = [m for m in muts if only in m['file']]
    os.makedirs(OUT, exist_ok=True)
    done = set()
    rp = f'{OUT}/results.jsonl'
    if os.path.exists(rp):
        done = {json.loads(l)['id'] for l in open(rp)}
    muts = [m for m in muts if m['id'] not in done]
    random.Random(seed).shuffle(muts)
    if sample:
        muts = muts[:sample]
    print(len(muts), 'mutants to run on', lanes, 'lanes', flush=True)
    for i in range(lanes):
        prepare_lane(i)
    import queue, threading
    q = queue.Queue()
    for m in muts:
        q.put(m)
    lock = threading.Lock()
    def worker(lane):
        while True:
            try:
                m = q.get_nowait()
            except queue.Empty:
                return
            try:
                r = one(lane, m, scale, workers)
            except Exception as ex:
                r = dict(m, verdict='error', error=str(ex)[:200])
            with lock:
                with open(rp, 'a') as fo:
                    fo.write(json.dumps(r) + '\n')
                print(r['verdict'], r.get('by', ''), r['file'], r['line'], r['op'], '|', r['new'].strip()[:80], flush=True)
    ts = [threading.Thread(target=worker, args=(i,)) for i in range(lanes)]
    for t in ts: t.start()
    for t in ts: t.join()
    if not keep:
        for i in range(lanes):
            shutil.rmtree(f'{WORK}/lane{i}', ignore_errors=True)
            shutil.rmtree(f'{WORK}/target{i}', ignore_errors=True)
            shutil.rmtree(f'{WORK}/target{i}t', ignore_errors=True)

def report():
    rs = [json.loads(l) for l in open(f'{OUT}/results.jsonl')]
    from collections import Counter
    c = Counter(r['verdict'] for r in rs)
    print(dict(c))
    by = Counter(r.get('by') for r in rs if r['verdict'].startswith('killed') and r.get('by'))
    print('killed by:', dict(by))
    for r in rs:
        if r['verdict'] in ('SURVIVED', 'error'):
            print(r['verdict'], r['id'], r['file'], r['line'], r['op'], '\n    -', r['old'].strip(), '\n    +', r['new'].strip())

if __name__ == '__main__':
    cmd = sys.argv[1] if len(sys.argv) > 1 else ''
    if cmd == 'gen': gen()
    elif cmd == 'run': run(sys.argv[2:])
    elif cmd == 'report': report()
    else: print(__doc__)

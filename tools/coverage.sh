#!/bin/bash
# usage: tools/coverage.sh [scale-pct] [ID...]
# Measures which lines of /repo/src the quick tiers actually execute: builds the harness with
# nightly's -C instrument-coverage in a scratch target directory, runs the quick checks (at
# scale-pct % of their case counts, default 25) with evidence/replays redirected to scratch,
# merges the raw profiles and prints per-file line coverage plus the uncovered lines of
# /repo/src.  Not a check: a tool for reading what the generators reach (DESIGN.md 14).
# Scratch: /tmp/cfbcov (removed at the start of every run; remove it when done).
set -u
pct="${1:-25}"; shift || true
T=/tmp/cfbcov
rm -rf "$T/prof" "$T/out"; mkdir -p "$T/prof" "$T/out"
BIN=$(dirname "$(rustup which --toolchain nightly rustc)")/../lib/rustlib/x86_64-unknown-linux-gnu/bin
export CARGO_NET_OFFLINE=true
( cd /verif/harness && RUSTFLAGS="-C instrument-coverage" CARGO_TARGET_DIR=$T/target cargo +nightly build --profile checked >"$T/out/build.log" 2>&1 ) || { tail -20 "$T/out/build.log"; exit 2; }
X=$T/target/checked/cfbverif
ids="$*"; [ -z "$ids" ] && ids=$($X list)
for id in $ids; do
  LLVM_PROFILE_FILE="$T/prof/$id-%p-%8m.profraw" VERIF_SCALE_PCT=$pct VERIF_EVIDENCE_DIR=$T/out/ev VERIF_REPLAY_DIR=$T/out/replays VERIF_SCRATCH=$T/out/scratch \
    $X check $id quick >"$T/out/$id.log" 2>&1
  echo "$id exit=$? $(ls $T/prof | grep -c "^$id-") profiles"
done
$BIN/llvm-profdata merge -sparse $T/prof/*.profraw -o $T/out/all.profdata || exit 2
$BIN/llvm-cov report $X -instr-profile=$T/out/all.profdata --ignore-filename-regex='(/verif/|\.cargo|/rustc/|library/)' 2>/dev/null | tee $T/out/report.txt
$BIN/llvm-cov show $X -instr-profile=$T/out/all.profdata --ignore-filename-regex='(/verif/|\.cargo|/rustc/|library/)' --show-line-counts-or-regions 2>/dev/null > $T/out/show.txt
# uncovered executable lines (count 0), grouped per file
python3 - "$T/out/show.txt" > "$T/out/uncovered.txt" <<'PY'
import re,sys
cur=None
for line in open(sys.argv[1], errors='replace'):
    m=re.match(r'^(/repo/\S+):$', line.strip())
    if m: cur=m.group(1); print('==', cur); continue
    m=re.match(r'^\s*(\d+)\|\s*0\|(.*)$', line)
    if m and cur and 'mod tests' not in m.group(2): print(f'{m.group(1):>5}: {m.group(2)}')
PY
echo "uncovered lines listed in $T/out/uncovered.txt ($(grep -vc '^==' $T/out/uncovered.txt) lines)"

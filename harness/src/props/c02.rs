//! C02 - write-through persistence: the byte image always reopens to the same state.

use crate::engine::{Oracles, Stats};
use crate::gen::{case_strategy, Profile};
use crate::ops::*;
use crate::props::hist::history_report;
use crate::runner::*;
use proptest::prelude::*;
use serde_json::Value;

pub fn oracles() -> Oracles {
    Oracles { reopen_check: true, reopen_replace_every: 4, track_tables: true, measure_shapes: false, ..Oracles::default() }
}

pub fn profile(tier: Tier) -> Profile {
    let mut p = Profile::c01();
    p.create = 40;
    p.remove = 12;
    p.query = 6;
    p.content = 22;
    p.meta = 6;
    p.reopen = 2;
    p.handles = 25;
    p.bad = 1;
    p.fancy = 1;
    p.max_size = 9000;
    p.max_ops = if tier == Tier::Thorough { 120 } else { 50 };
    p.max_bufs = vec![None, Some(1024), Some(4096)];
    p
}

fn nontrivial(s: &Stats, _c: &Case) -> bool {
    s.has("mutation_after_replace_after_table_change")
}

pub fn report(c: &Case) -> CaseReport {
    history_report(c, oracles(), nontrivial)
}

/// Sub-strategies that reach the rarer table changes: many entries (second and third
/// directory sector also in V4, several MiniFAT sectors) and one stream big enough for a
/// DIFAT sector in V3 (> 109 FAT sectors).
fn table_growth_case(tier: Tier) -> BoxedStrategy<Case> {
    use crate::gen::*;
    use proptest::collection::vec;
    let step = prop_oneof![
        10 => (new_path(0), data_strategy(700)).prop_map(|(p, data)| Op::CreateStream { p, data }),
        2 => new_path(0).prop_map(|p| Op::CreateStorage { p }),
        2 => pick_path(PickKind::Stream, 0).prop_map(|p| Op::RemoveStream { p }),
        1 => (pick_path(PickKind::Stream, 0), len_spec(9000)).prop_map(|(p, len)| Op::SetLen { p, len }),
        1 => (new_path(0), 60_000u32..140_000, any::<u8>()).prop_map(|(p, len, seed)| Op::CreateStream { p, data: DataSpec { len, seed } }),
    ];
    let big = prop_oneof![8 => Just(None), 1 => (7_150_000u32..7_300_000).prop_map(Some)];
    let n = if tier == Tier::Thorough { 120 } else { 70 };
    (proptest::sample::select(vec![3u8, 4, 4]), vec(step, 30..=n), big)
        .prop_map(|(version, mut ops, big)| {
            if let Some(len) = big {
                // DIFAT sector in V3: keep the history short, every boundary reopens 7 MB twice
                ops.truncate(6);
                ops.insert(2, Op::CreateStream { p: PathSpec::Raw("/huge".into()), data: DataSpec { len, seed: 3 } });
                ops.push(Op::SetLen { p: PathSpec::Raw("/huge".into()), len: LenSpec::Rel(70_000) });
                return Case { version: 3, max_buf: None, start: Start::Fresh, pool: (0..60).map(|i| format!("e{:02}", i)).collect(), ops };
            }
            Case { version, max_buf: None, start: Start::Fresh, pool: (0..60).map(|i| format!("e{:02}", i)).collect(), ops }
        })
        .boxed()
}

fn worker(ctx: &Ctx) -> WorkerResult {
    let strat = prop_oneof![
        10 => case_strategy(&profile(ctx.tier), crate::synth::AVAILABLE),
        1 => table_growth_case(ctx.tier),
    ]
    .boxed();
    run_worker(ctx, strat, report)
}

fn solo(v: &Value) -> Result<CaseReport, String> {
    run_solo(v, report)
}

fn big_library(_ctx: &Ctx, ev: &mut Value) -> Option<Violation> {
    match crate::props::scenarios::huge_library_file() {
        Ok(n) => {
            ev["coverage"]["huge_library_file_steps"] = serde_json::json!(n);
        }
        Err(v) => return Some(v),
    }
    match crate::props::scenarios::grow_beyond_4gib() {
        Ok(n) => {
            ev["coverage"]["grow_beyond_4gib_steps"] = serde_json::json!(n);
        }
        Err(v) => return Some(v),
    }
    match crate::props::scenarios::dir_slot_sweep() {
        Ok(n) => {
            ev["coverage"]["dir_slot_sweep_steps"] = serde_json::json!(n);
            None
        }
        Err(v) => Some(v),
    }
}

pub fn def() -> PropDef {
    PropDef {
        id: "C02",
        level: "exploration",
        rule: "histories (namespace, content, metadata and stream-handle ops, buffer sizes default/1024/4096, both versions); at every op boundary where no handle holds unflushed bytes the raw backend bytes (no flush, no into_inner) are opened in permissive and strict mode and their full dump compared with the model; every 4th clean boundary after a mutation the reopened object replaces the live one (alternating strict/permissive) and the history continues on it. Scenario steps: a version-4 file grown past 4 GiB by the library on a sparse backend (raw bytes judged by the checker and reopened in both modes), the 32.4 MB library-written file (110th, 237th, 364th and 491st FAT sector: four DIFAT sectors) and the directory slot sweep (remove + create on every slot of a 3-sector directory, V3 and V4, checker and reopen in both modes after every step). Non-trivial = a replacement happened after an op that changed a header counter or the file length, and at least one more mutation ran on the reopened object; distinct = distinct case JSON. Thorough tier: libFuzzer campaign fz_hist over byte-encoded histories (16-byte record per op) with this same runner and oracle.",
        assumptions: &["'possibly dirty' is tracked by the harness: from a write through a handle until its next successful flush, length-changing set_len or close", "abstract model as in C01"],
        quick_cases: 1500,
        thorough_cases: 20000,
        worker,
        solo,
        hang_cpu_s: 30.0,
        extra: Some(big_library),
        confirm_known: false,
    }
}

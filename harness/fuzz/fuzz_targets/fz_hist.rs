#![no_main]
// C01/C02/C03/C10: the input bytes drive proptest's pass-through generator, which decodes
// them into an operation history; the history runs on the library and on the model with the
// oracle set of the property named by VERIF_FZ_PROP (default C02). Oracle inside the target.
use libfuzzer_sys::fuzz_target;
mod common;

fuzz_target!(|data: &[u8]| {
    common::init();
    let prop = common::hist_prop();
    if let Some(case) = common::hist_case(&prop, data) {
        let rep = cfbverif::props::hist::fuzz_report(&prop, &case);
        if let Some(f) = rep.fail {
            let known = cfbverif::runner::Known::load();
            if known.lookup(&prop, &f.key).is_none() {
                common::violation(&prop, &f.key, &f.detail);
            }
        }
    }
});

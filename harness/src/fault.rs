//! Fault engine (C12 read-side, C13 write-side): runs a workload once without faults to
//! count the underlying calls, then once per fault position.

use crate::backend::{Ctl, FaultDomain, Io};
use crate::engine::*;
use crate::engine_handles::{model_seek, resolve_seek};
use crate::model::*;
use crate::ops::*;
use crate::util::*;
use std::io::{BufRead, Read, Seek, SeekFrom, Write};
use std::sync::{Arc, Mutex};

pub const KINDS: [std::io::ErrorKind; 10] = [
    std::io::ErrorKind::Other,
    std::io::ErrorKind::UnexpectedEof,
    std::io::ErrorKind::TimedOut,
    std::io::ErrorKind::NotFound,
    std::io::ErrorKind::PermissionDenied,
    std::io::ErrorKind::InvalidInput,
    std::io::ErrorKind::InvalidData,
    std::io::ErrorKind::AlreadyExists,
    std::io::ErrorKind::WriteZero,
    std::io::ErrorKind::BrokenPipe,
];

/// Read-side faults also come as the kinds that retry loops treat specially: a call that
/// meets them may succeed after all (std's read_exact retries Interrupted), but then it
/// must return the fault-free value.
pub const READ_KINDS: [std::io::ErrorKind; 12] = [
    std::io::ErrorKind::Other,
    std::io::ErrorKind::Interrupted,
    std::io::ErrorKind::UnexpectedEof,
    std::io::ErrorKind::TimedOut,
    std::io::ErrorKind::WouldBlock,
    std::io::ErrorKind::NotFound,
    std::io::ErrorKind::PermissionDenied,
    std::io::ErrorKind::InvalidInput,
    std::io::ErrorKind::InvalidData,
    std::io::ErrorKind::AlreadyExists,
    std::io::ErrorKind::WriteZero,
    std::io::ErrorKind::BrokenPipe,
];

#[derive(Default, Debug, Clone)]
pub struct ReadRunStats {
    pub n_calls: u64,
    pub faults_fired: u64,
    pub fault_in_stream_read: bool,
    pub err_then_bytes_on_same_handle: bool,
    pub open_failed: bool,
    pub api_errors: u64,
}

struct RHandle {
    stream: cfb::Stream<Io>,
    path: Vec<String>,
    /// an error was returned by a read-type call on this handle
    had_err: bool,
}

fn stream_bytes<'a>(m: &'a Model, path: &[String]) -> &'a [u8] {
    match &m.get(path).unwrap().kind {
        Kind::Stream { data } => data,
        _ => &[],
    }
}

/// Runs a read-only script on `image` under the fault plan in `ctl`.
/// `helper` is a model-only engine used for path resolution and expectations.
pub fn run_read_script(image: &Arc<Mutex<Vec<u8>>>, helper: &Engine, max_buf: Option<u32>, strict: bool, script: &[Op], ctl: &Arc<Mutex<Ctl>>, trace: &mut Vec<String>, no_retry_mask: u32) -> Result<ReadRunStats, Fail> {
    let mut st = ReadRunStats::default();
    let tries = 4;
    let mk_io = || Io { data: image.clone(), pos: 0, ctl: Some(ctl.clone()), cap: crate::backend::DEFAULT_CAP, file: None, file_path: None };
    let fired = |ctl: &Arc<Mutex<Ctl>>| ctl.lock().unwrap().counters.faults_fired;
    // open (with retries)
    let mut cfbo: Option<Cfb> = None;
    for t in 0..tries {
        let io = mk_io();
        let f0 = fired(ctl);
        match guard("open", || open_options(max_buf, strict).open_with(io))? {
            Ok(c) => {
                cfbo = Some(c);
                break;
            }
            Err(e) => {
                st.api_errors += 1;
                if fired(ctl) == f0 {
                    return Err(Fail::new("read_fault|open|no_fault|Ok|Err", format!("open failed without an injected fault in this attempt: {}", e)));
                }
                trace.push(format!("open -> Err({}) [try {}]", e, t));
            }
        }
    }
    let mut c = match cfbo {
        Some(c) => c,
        None => {
            st.open_failed = true;
            st.n_calls = ctl.lock().unwrap().domain_seq;
            st.faults_fired = fired(ctl);
            return Ok(st);
        }
    };
    let mut handles: Vec<Option<RHandle>> = (0..4).map(|_| None).collect();
    for (oi, op) in script.iter().enumerate() {
        let tries = if no_retry_mask >> (oi % 32) & 1 == 1 { 1 } else { tries };
        for t in 0..tries {
            let f0 = fired(ctl);
            let r = read_op(&mut c, helper, &mut handles, op, ctl, &mut st, trace);
            match r {
                Err(f) => return Err(f),
                Ok(true) => break,
                Ok(false) => {
                    // the call returned Err: legitimate only if a fault fired during it or
                    // the fault-free result is an error too (checked inside read_op)
                    st.api_errors += 1;
                    let _ = (t, f0);
                }
            }
        }
    }
    st.n_calls = ctl.lock().unwrap().domain_seq;
    st.faults_fired = fired(ctl);
    Ok(st)
}

/// Returns Ok(true) if the call completed with its fault-free result, Ok(false) if it
/// returned an error attributable to an injected fault (retry), Err on a violation.
fn read_op(c: &mut Cfb, helper: &Engine, handles: &mut Vec<Option<RHandle>>, op: &Op, ctl: &Arc<Mutex<Ctl>>, st: &mut ReadRunStats, trace: &mut Vec<String>) -> Result<bool, Fail> {
    let fired = |ctl: &Arc<Mutex<Ctl>>| ctl.lock().unwrap().counters.faults_fired;
    let f0 = fired(ctl);
    let kind = op.kind();
    // an Err is acceptable iff a fault fired during this very call
    let attributable = |ctl: &Arc<Mutex<Ctl>>| fired(ctl) > f0;
    macro_rules! on_err {
        ($e:expr, $expected_err:expr) => {{
            let e: std::io::Error = $e;
            trace.push(format!("{} -> Err({:?}: {})", kind, e.kind(), e));
            if $expected_err || attributable(ctl) {
                return Ok(!attributable(ctl));
            }
            return Err(Fail::new(format!("read_fault|{}|no_fault_in_call|Ok|Err", kind), format!("{} returned Err({}) although no fault fired during the call", kind, e)));
        }};
    }
    match op {
        Op::Walk => {
            let got = guard("walk", || c.walk().map(|e| obs_entry(&e)).collect::<Vec<_>>())?;
            let exp = helper.model.walk(&[]).unwrap();
            cmp_entries(&exp, &got).map_err(|m| Fail::new("read_fault|walk|value", format!("walk under faults: {}", m)))?;
            Ok(true)
        }
        Op::ListRoot => {
            let got = guard("read_root_storage", || c.read_root_storage().map(|e| obs_entry(&e)).collect::<Vec<_>>())?;
            let exp = helper.model.list(&[]).unwrap();
            cmp_entries(&exp, &got).map_err(|m| Fail::new("read_fault|read_root_storage|value", m))?;
            Ok(true)
        }
        Op::RootEntry => {
            let got = guard("root_entry", || obs_entry(&c.root_entry()))?;
            cmp_entry(&helper.model.entry_info(&[]).unwrap(), &got, false).map_err(|m| Fail::new("read_fault|root_entry|value", m))?;
            Ok(true)
        }
        Op::List { p } | Op::WalkStorage { p } | Op::Entry { p } => {
            let r = helper.resolve(p);
            let path = r.path();
            let want = if matches!(op, Op::List { .. }) { 2 } else { 0 };
            let (_, refusals, names) = helper.lookup_refusals(&r, want);
            match op {
                Op::Entry { .. } => match guard("entry", || c.entry(&path).map(|e| obs_entry(&e)))? {
                    Ok(o) => {
                        if !refusals.is_empty() {
                            return Err(Fail::new("read_fault|entry|should_fail|Err|Ok", format!("entry({:?}) succeeded", r.show())));
                        }
                        cmp_entry(&helper.model.entry_info(&names.unwrap()).unwrap(), &o, false).map_err(|m| Fail::new("read_fault|entry|value", m))?;
                        Ok(true)
                    }
                    Err(e) => on_err!(e, !refusals.is_empty()),
                },
                Op::List { .. } => match guard("read_storage", || c.read_storage(&path).map(|it| it.map(|e| obs_entry(&e)).collect::<Vec<_>>()))? {
                    Ok(o) => {
                        if !refusals.is_empty() {
                            return Err(Fail::new("read_fault|read_storage|should_fail|Err|Ok", format!("read_storage({:?}) succeeded", r.show())));
                        }
                        cmp_entries(&helper.model.list(&names.unwrap()).unwrap(), &o).map_err(|m| Fail::new("read_fault|read_storage|value", m))?;
                        Ok(true)
                    }
                    Err(e) => on_err!(e, !refusals.is_empty()),
                },
                _ => match guard("walk_storage", || c.walk_storage(&path).map(|it| it.map(|e| obs_entry(&e)).collect::<Vec<_>>()))? {
                    Ok(o) => {
                        if !refusals.is_empty() {
                            return Err(Fail::new("read_fault|walk_storage|should_fail|Err|Ok", format!("walk_storage({:?}) succeeded", r.show())));
                        }
                        cmp_entries(&helper.model.walk(&names.unwrap()).unwrap(), &o).map_err(|m| Fail::new("read_fault|walk_storage|value", m))?;
                        Ok(true)
                    }
                    Err(e) => {
                        let on_stream = names.as_ref().and_then(|n| helper.model.get(n)).map(|n| n.is_stream()).unwrap_or(false);
                        on_err!(e, !refusals.is_empty() || on_stream)
                    }
                },
            }
        }
        Op::Exists { p } | Op::IsStream { p } | Op::IsStorage { p } => {
            let r = helper.resolve(p);
            let path = r.path();
            let node = match &r.norm {
                NormPath::Ok(n) => helper.model.get(n),
                _ => None,
            };
            let (got, exp) = match op {
                Op::Exists { .. } => (guard("exists", || c.exists(&path))?, node.is_some()),
                Op::IsStream { .. } => (guard("is_stream", || c.is_stream(&path))?, node.map(|n| n.is_stream()).unwrap_or(false)),
                _ => (guard("is_storage", || c.is_storage(&path))?, node.map(|n| !n.is_stream()).unwrap_or(false)),
            };
            if got != exp {
                return Err(Fail::new(format!("read_fault|{}|value", kind), format!("{}({:?}) = {}, expected {}", kind, r.show(), got, exp)));
            }
            Ok(true)
        }
        Op::ReadAll { p } => {
            let r = helper.resolve(p);
            let path = r.path();
            let (_, refusals, names) = helper.lookup_refusals(&r, 1);
            let mut v = Vec::new();
            let res = guard("read_all", || -> std::io::Result<()> {
                let mut s = c.open_stream(&path)?;
                s.read_to_end(&mut v)?;
                Ok(())
            })?;
            match res {
                Ok(()) => {
                    if !refusals.is_empty() {
                        return Err(Fail::new("read_fault|open_stream|should_fail|Err|Ok", format!("open_stream({:?}) succeeded", r.show())));
                    }
                    let exp = stream_bytes(&helper.model, &names.unwrap());
                    if v != exp {
                        return Err(Fail::new("read_fault|read_to_end|wrong_bytes", crate::engine_ops::describe_diff(&r.show(), exp, &v)));
                    }
                    Ok(true)
                }
                Err(e) => {
                    if let Some(n) = &names {
                        if refusals.is_empty() {
                            let exp = stream_bytes(&helper.model, n);
                            if v.len() > exp.len() || v[..] != exp[..v.len()] {
                                return Err(Fail::new("read_fault|read_to_end|wrong_partial_bytes", format!("read_to_end failed ({}) after delivering {} bytes that are not a prefix of the content", e, v.len())));
                            }
                        }
                    }
                    on_err!(e, !refusals.is_empty())
                }
            }
        }
        Op::HOpen { slot, p } => {
            let slot = *slot as usize % handles.len();
            let r = helper.resolve(p);
            let path = r.path();
            let (_, refusals, names) = helper.lookup_refusals(&r, 1);
            handles[slot] = None;
            match guard("open_stream", || c.open_stream(&path))? {
                Ok(s) => {
                    if !refusals.is_empty() {
                        return Err(Fail::new("read_fault|open_stream|should_fail|Err|Ok", format!("open_stream({:?}) succeeded", r.show())));
                    }
                    handles[slot] = Some(RHandle { stream: s, path: names.unwrap(), had_err: false });
                    Ok(true)
                }
                Err(e) => on_err!(e, !refusals.is_empty()),
            }
        }
        Op::HClose { slot } => {
            let slot = *slot as usize % handles.len();
            if let Some(h) = handles[slot].take() {
                guard("h_close", move || drop(h))?;
            }
            Ok(true)
        }
        Op::HRead { slot, .. } | Op::HReadExact { slot, .. } | Op::HFillConsume { slot, .. } | Op::HSeek { slot, .. } | Op::HReadToEnd { slot } | Op::HPos { slot } | Op::HLen { slot } | Op::HReadV { slot, .. } => {
            let slot = *slot as usize % handles.len();
            let h = match handles[slot].as_mut() {
                Some(h) => h,
                None => return Ok(true),
            };
            let data = stream_bytes(&helper.model, &h.path);
            let len = data.len() as u64;
            // the position the handle itself reports
            let pos = match guard("h_pos", || h.stream.stream_position())? {
                Ok(p) => p,
                Err(e) => on_err!(e, false),
            };
            if pos > len {
                return Err(Fail::new("read_fault|h_pos|beyond_len", format!("handle reports position {} on a stream of {} bytes", pos, len)));
            }
            let in_read = |st: &mut ReadRunStats| {
                if attributable(ctl) {
                    st.fault_in_stream_read = true;
                }
            };
            match op {
                Op::HPos { .. } => Ok(true),
                Op::HLen { .. } => {
                    let l = guard("h_len", || h.stream.len())?;
                    if l != len {
                        return Err(Fail::new("read_fault|h_len|value", format!("len() = {}, expected {}", l, len)));
                    }
                    Ok(true)
                }
                Op::HRead { n, .. } => {
                    let n = *n as usize;
                    let mut buf = vec![0u8; n];
                    match guard("h_read", || h.stream.read(&mut buf))? {
                        Ok(k) => {
                            let avail = (len - pos) as usize;
                            if k > n.min(avail) || (k == 0 && n > 0 && avail > 0) {
                                return Err(Fail::new("read_fault|h_read|count", format!("read({}) at {} of {} returned {}", n, pos, len, k)));
                            }
                            if buf[..k] != data[pos as usize..pos as usize + k] {
                                return Err(Fail::new("read_fault|h_read|wrong_bytes", format!("read({}) at reported position {} returned {} bytes that differ from the stream's content ({}had failed before)", n, pos, k, if h.had_err { "a call on this handle " } else { "no call " })));
                            }
                            if k > 0 && h.had_err {
                                st.err_then_bytes_on_same_handle = true;
                            }
                            Ok(true)
                        }
                        Err(e) => {
                            h.had_err = true;
                            in_read(st);
                            position_kept(h, pos, "h_read")?;
                            on_err!(e, false)
                        }
                    }
                }
                Op::HReadV { n1, n2, .. } => {
                    // Read::read_vectored: "same semantics as read" - any prefix of the two buffers
                    // taken together, and on Err nothing has been read
                    let (n1, n2) = (*n1 as usize, *n2 as usize);
                    let mut b1 = vec![0u8; n1];
                    let mut b2 = vec![0u8; n2];
                    let res = guard("h_read_vectored", || {
                        let mut bufs = [std::io::IoSliceMut::new(&mut b1), std::io::IoSliceMut::new(&mut b2)];
                        h.stream.read_vectored(&mut bufs)
                    })?;
                    match res {
                        Ok(k) => {
                            let avail = (len - pos) as usize;
                            if k > (n1 + n2).min(avail) || (k == 0 && n1 + n2 > 0 && avail > 0) {
                                return Err(Fail::new("read_fault|h_read_vectored|count", format!("read_vectored({}+{}) at {} of {} returned {}", n1, n2, pos, len, k)));
                            }
                            let mut got = b1[..k.min(n1)].to_vec();
                            got.extend_from_slice(&b2[..k.saturating_sub(n1)]);
                            if got[..] != data[pos as usize..pos as usize + k] {
                                return Err(Fail::new("read_fault|h_read_vectored|wrong_bytes", format!("read_vectored({}+{}) at reported position {} returned {} bytes that differ from the stream's content", n1, n2, pos, k)));
                            }
                            if k > 0 && h.had_err {
                                st.err_then_bytes_on_same_handle = true;
                            }
                            Ok(true)
                        }
                        Err(e) => {
                            h.had_err = true;
                            in_read(st);
                            position_kept(h, pos, "h_read_vectored")?;
                            on_err!(e, false)
                        }
                    }
                }
                Op::HReadExact { n, .. } => {
                    let n = *n as usize;
                    let mut buf = vec![0u8; n];
                    let avail = (len - pos) as usize;
                    match guard("h_read_exact", || h.stream.read_exact(&mut buf))? {
                        Ok(()) => {
                            if n > avail {
                                return Err(Fail::new("read_fault|h_read_exact|past_end", "read_exact past the end succeeded".to_string()));
                            }
                            if buf[..] != data[pos as usize..pos as usize + n] {
                                return Err(Fail::new("read_fault|h_read_exact|wrong_bytes", format!("read_exact({}) at reported position {} returned wrong bytes", n, pos)));
                            }
                            if n > 0 && h.had_err {
                                st.err_then_bytes_on_same_handle = true;
                            }
                            Ok(true)
                        }
                        Err(e) => {
                            if n <= avail {
                                h.had_err = true;
                                in_read(st);
                            }
                            on_err!(e, n > avail)
                        }
                    }
                }
                Op::HFillConsume { frac, .. } => {
                    let res = guard("h_fill_buf", || -> std::io::Result<(usize, bool)> {
                        let s = h.stream.fill_buf()?;
                        let l = s.len();
                        let ok = l <= data.len() - pos as usize && s == &data[pos as usize..pos as usize + l];
                        let take = if l == 0 { 0 } else { (((l as u64 * (*frac as u64 + 1) + 65535) >> 16) as usize).min(l) };
                        h.stream.consume(take);
                        Ok((l, ok))
                    })?;
                    match res {
                        Ok((l, ok)) => {
                            if !ok {
                                return Err(Fail::new("read_fault|h_fill_buf|wrong_bytes", format!("fill_buf at reported position {} returned {} bytes that are not the stream's content there", pos, l)));
                            }
                            if l == 0 && pos < len {
                                return Err(Fail::new("read_fault|h_fill_buf|empty", format!("fill_buf at {} of {} returned nothing", pos, len)));
                            }
                            if l > 0 && h.had_err {
                                st.err_then_bytes_on_same_handle = true;
                            }
                            Ok(true)
                        }
                        Err(e) => {
                            h.had_err = true;
                            in_read(st);
                            position_kept(h, pos, "h_fill_buf")?;
                            on_err!(e, false)
                        }
                    }
                }
                Op::HSeek { s, .. } => {
                    let sf = resolve_seek(s, len, pos);
                    let exp = model_seek(sf, len, pos);
                    match guard("h_seek", || h.stream.seek(sf))? {
                        Ok(v) => {
                            if exp != Some(v) {
                                return Err(Fail::new("read_fault|h_seek|value", format!("seek({:?}) from {} on len {} returned {}, expected {:?}", sf, pos, len, v, exp)));
                            }
                            Ok(true)
                        }
                        Err(e) => on_err!(e, exp.is_none()),
                    }
                }
                Op::HReadToEnd { .. } => {
                    let mut v = Vec::new();
                    let res = guard("h_read_to_end", || h.stream.read_to_end(&mut v))?;
                    let exp = &data[pos as usize..];
                    if v.len() > exp.len() || v[..] != exp[..v.len()] {
                        return Err(Fail::new("read_fault|h_read_to_end|wrong_bytes", format!("read_to_end from reported position {} delivered {} bytes that are not the stream's content there", pos, v.len())));
                    }
                    match res {
                        Ok(_) => {
                            if v.len() != exp.len() {
                                return Err(Fail::new("read_fault|h_read_to_end|short", format!("read_to_end from {} returned {} of {} bytes", pos, v.len(), exp.len())));
                            }
                            if !v.is_empty() && h.had_err {
                                st.err_then_bytes_on_same_handle = true;
                            }
                            Ok(true)
                        }
                        Err(e) => {
                            h.had_err = true;
                            in_read(st);
                            on_err!(e, false)
                        }
                    }
                }
                _ => Ok(true),
            }
        }
        _ => Ok(true),
    }
}

/// `Read::read` (and `read_vectored`, `BufRead::fill_buf`): "If an error is returned then it
/// must be guaranteed that no bytes were read" - std's own retry loops (`read_exact`,
/// `read_to_end` on `Interrupted`) and every retrying caller rely on it, and C12's "returns
/// exactly what it returns without faults" for the repeated call does too: the position the
/// handle reports after the failed call must be the one it reported before. (A position
/// query that fails itself is not judged.)
fn position_kept(h: &mut RHandle, before: u64, what: &str) -> Result<(), Fail> {
    if let Ok(Ok(after)) = guard("h_pos", || h.stream.stream_position()) {
        if after != before {
            return Err(Fail::new(format!("read_fault|{}|position_moved_on_err", what), format!("{} returned Err but the handle's position moved from {} to {}: a caller that repeats the call gets different bytes than without the fault", what, before, after)));
        }
    }
    Ok(())
}

fn ctl_image(io: &Io) -> Arc<Mutex<Vec<u8>>> {
    io.data.clone()
}

pub fn new_ctl(domain: FaultDomain) -> Arc<Mutex<Ctl>> {
    let mut c = Ctl::default();
    c.domain = Some(domain);
    Arc::new(Mutex::new(c))
}

// ======================================================================================
// C13: write-side faults

use serde::{Deserialize, Serialize};
use std::collections::BTreeMap;

/// The first eight names are the namespace of the generated workloads (their name indices are
/// drawn from 0..8); the others are filler streams of the directory-growth scenario.
pub const WNAMES: &[&str] = &[
    "/s0", "/s1", "/s2", "/d0", "/d0/s3", "/d0/s4", "/d1", "/d0/d2", "/f00", "/f01", "/f02", "/f03", "/f04", "/f05", "/f06", "/f07", "/f08", "/f09", "/f10", "/f11", "/f12", "/f13", "/f14", "/f15", "/f16", "/f17", "/f18", "/f19", "/f20",
    "/f21", "/f22", "/f23", "/f24", "/f25", "/f26", "/f27", "/f28", "/f29", "/f30", "/f31", "/f32", "/f33", "/f34", "/f35", "/f36", "/f37", "/f38", "/f39", "/f40", "/f41", "/f42", "/f43", "/f44", "/f45", "/f46", "/f47", "/f48", "/f49",
    "/f50", "/f51", "/f52", "/f53", "/f54", "/f55", "/f56", "/f57", "/f58", "/f59", "/f60", "/f61", "/f62", "/f63", "/f64", "/f65", "/f66", "/f67", "/f68", "/f69",
];
/// whether WNAMES[n] names a storage (the fillers from index 8 on are streams)
fn w_is_storage(n: usize) -> bool {
    matches!(n, 3 | 6 | 7)
}

#[derive(Clone, Debug, PartialEq, Eq, Serialize, Deserialize)]
pub enum WOp {
    CreateStorage { name: u8 },
    RemoveStorage { name: u8 },
    CreateStream { slot: u8, name: u8 },
    OpenStream { slot: u8, name: u8 },
    Write { slot: u8, data: DataSpec },
    WriteAll { slot: u8, data: DataSpec },
    SeekStart { slot: u8, frac: u16 },
    SeekEnd { slot: u8 },
    SetLen { slot: u8, len: LenSpec },
    Flush { slot: u8 },
    Read { slot: u8, n: u32 },
    Close { slot: u8 },
    RemoveStream { name: u8 },
    SetState { name: u8, bits: u32 },
    CfbFlush,
    /// walk() over the whole tree (must terminate)
    Walk,
    /// remove_storage_all on one of the storages
    RemoveAll { name: u8 },
}

struct WHandle {
    stream: cfb::Stream<Io>,
    name: usize,
    /// offset -> byte accepted by a successful write through this handle (and not
    /// truncated away since)
    accepted: BTreeMap<u64, u8>,
    /// a write-back fault happened while this handle had accepted-but-unflushed bytes
    saw_writeback_fault: bool,
}

#[derive(Default, Debug, Clone)]
pub struct WriteRunStats {
    pub n_calls: u64,
    pub faults_fired: u64,
    pub fault_in_drop: bool,
    pub fault_in_writeback: bool,
    pub flush_ok_after_writeback_fault: bool,
    pub flush_ok_checks: u64,
    pub reopen_checks: u64,
    /// flush returned Ok but the raw bytes could not be opened / the stream not be read
    pub reopen_problems: Vec<String>,
    /// value of the write-side call counter at the start of every API call attempt
    pub op_starts: Vec<u64>,
    pub reopen_skipped_after_failed_namespace_call: u64,
    pub durable_checks: u64,
    pub durable_unreadable: u64,
}

/// Runs a mutating workload under the fault plan in `ctl` (write-side domain).
pub fn run_write_script(version: u8, max_buf: Option<u32>, script: &[WOp], ctl: &Arc<Mutex<Ctl>>, trace: &mut Vec<String>) -> Result<WriteRunStats, Fail> {
    let mut st = WriteRunStats::default();
    let io = Io::new().with_ctl(ctl.clone());
    // creation itself runs without faults (the workload starts from an existing file)
    let was_enabled = {
        let mut g = ctl.lock().unwrap();
        let w = g.faults_enabled;
        g.faults_enabled = false;
        w
    };
    let c_io = io.peer();
    let mut c: Cfb = {
        let v = if version == 3 { cfb::Version::V3 } else { cfb::Version::V4 };
        let peer = io.peer_ctl();
        let made = guard("create", || cfb::CompoundFile::create_with_version(v, io))?.map_err(|e| Fail::new("harness|create", e.to_string()))?;
        match max_buf {
            None => made,
            Some(m) => {
                drop(made);
                guard("open", || open_options(Some(m), false).open_with(peer))?.map_err(|e| Fail::new("harness|reopen", e.to_string()))?
            }
        }
    };
    {
        let mut g = ctl.lock().unwrap();
        g.faults_enabled = was_enabled;
        g.domain_seq = 0;
        g.counters = Default::default();
    }
    let mut handles: Vec<Option<WHandle>> = (0..3).map(|_| None).collect();
    // stream name index -> bytes that a successful flush made durable and that nothing has
    // touched since (no write / set_len / create / remove on that stream, attempted or not)
    let mut durable: BTreeMap<usize, BTreeMap<u64, u8>> = BTreeMap::new();
    // a fault fired inside a call that rewrites directory links (create/remove of an entry):
    // the directory in the file may then disagree with the one in memory (e.g. a removed
    // entry still linked on disk), so what a name means in the raw bytes is no longer judged
    let mut namespace_call_failed = false;
    let label = |ctl: &Arc<Mutex<Ctl>>| -> u64 {
        let mut g = ctl.lock().unwrap();
        g.api_call += 1;
        g.api_call
    };
    let fired_in = |ctl: &Arc<Mutex<Ctl>>, l: u64| -> bool { ctl.lock().unwrap().fired.iter().any(|f| f.0 == l) };
    let open_on = |handles: &Vec<Option<WHandle>>, name: usize| handles.iter().any(|h| h.as_ref().map(|h| h.name == name).unwrap_or(false));

    for op in script.iter() {
        // each op may be tried twice: once as is, and once more (faults have fired by then)
        for attempt in 0..2 {
            let l = label(ctl);
            st.op_starts.push(ctl.lock().unwrap().domain_seq);
            // result: Ok(()) / Err(io) of the API call, or None if the op was skipped
            let mut flush_ok_slot: Option<usize> = None;
            // a growing set_len that returned Err: (stream name index, length before)
            let mut grow_failed: Option<(usize, u64)> = None;
            // a growing set_len that returned Ok: (stream name index, old length, new length)
            let mut grew_ok: Option<(usize, u64, u64)> = None;
            match op {
                WOp::CreateStream { name, .. } | WOp::RemoveStream { name } => {
                    durable.remove(&(*name as usize % WNAMES.len()));
                }
                WOp::RemoveAll { name } => {
                    let n = *name as usize % WNAMES.len();
                    durable.retain(|k, _| !WNAMES[*k].starts_with(WNAMES[n]));
                }
                WOp::Write { slot, .. } | WOp::WriteAll { slot, .. } | WOp::SetLen { slot, .. } => {
                    if let Some(h) = handles[*slot as usize % handles.len()].as_ref() {
                        durable.remove(&h.name);
                    }
                }
                _ => {}
            }
            let res: Option<std::io::Result<()>> = match op {
                WOp::CreateStorage { name } => {
                    let n = *name as usize % WNAMES.len();
                    if !w_is_storage(n) {
                        None
                    } else {
                        Some(guard("create_storage", || c.create_storage(WNAMES[n]))?)
                    }
                }
                WOp::RemoveStorage { name } => {
                    let n = *name as usize % WNAMES.len();
                    if !w_is_storage(n) {
                        None
                    } else {
                        Some(guard("remove_storage", || c.remove_storage(WNAMES[n]))?)
                    }
                }
                WOp::CreateStream { slot, name } | WOp::OpenStream { slot, name } => {
                    let n = *name as usize % WNAMES.len();
                    let s = *slot as usize % handles.len();
                    if w_is_storage(n) || open_on(&handles, n) {
                        None
                    } else {
                        // close the slot's previous handle first (a Drop: faults there are exempt)
                        if let Some(h) = handles[s].take() {
                            let ld = label(ctl);
                            guard("h_drop", move || drop(h))?;
                            if fired_in(ctl, ld) {
                                st.fault_in_drop = true;
                            }
                        }
                        let l2 = label(ctl);
                        let create = matches!(op, WOp::CreateStream { .. });
                        let r = guard("create_stream", || if create { c.create_stream(WNAMES[n]) } else { c.open_stream(WNAMES[n]) })?;
                        let fired_here = fired_in(ctl, l2);
                        match r {
                            Ok(stream) => {
                                if fired_here {
                                    return Err(Fail::new(format!("write_fault|{}|fault_swallowed", if create { "create_stream" } else { "open_stream" }), format!("a fault fired during {:?} but the call returned Ok", op)));
                                }
                                handles[s] = Some(WHandle { stream, name: n, accepted: BTreeMap::new(), saw_writeback_fault: false });
                                Some(Ok(()))
                            }
                            Err(e) => Some(Err(e)),
                        }
                    }
                }
                WOp::RemoveStream { name } => {
                    let n = *name as usize % WNAMES.len();
                    if w_is_storage(n) || open_on(&handles, n) {
                        None
                    } else {
                        Some(guard("remove_stream", || c.remove_stream(WNAMES[n]))?)
                    }
                }
                WOp::SetState { name, bits } => {
                    let n = *name as usize % WNAMES.len();
                    Some(guard("set_state_bits", || c.set_state_bits(WNAMES[n], *bits))?)
                }
                WOp::CfbFlush => {
                    // "Flushes all changes to the underlying file": Ok without a flush call on the
                    // underlying writer is not a flush (also on the repetition after a failed one)
                    let r = guard("flush", || c.flush())?;
                    if r.is_ok() && ctl.lock().unwrap().dirty_since_flush {
                        return Err(Fail::new("write_fault|flush|inner_flush_not_called", "CompoundFile::flush returned Ok although data written to the underlying writer since its last successful flush was not flushed"));
                    }
                    Some(r)
                }
                WOp::Walk => {
                    let n = guard("walk", || c.walk().take(20_000).count())?;
                    if n >= 20_000 {
                        return Err(Fail::new("write_fault|walk|does_not_terminate", "walk() yields more than 20000 entries on a file with at most 9: the sibling tree has a cycle".to_string()));
                    }
                    None
                }
                WOp::RemoveAll { name } => {
                    let n = *name as usize % WNAMES.len();
                    if !w_is_storage(n) || (0..WNAMES.len()).any(|k| WNAMES[k].starts_with(WNAMES[n]) && open_on(&handles, k)) {
                        None
                    } else {
                        Some(guard("remove_storage_all", || c.remove_storage_all(WNAMES[n]))?)
                    }
                }
                WOp::Close { slot } => {
                    let s = *slot as usize % handles.len();
                    if let Some(h) = handles[s].take() {
                        guard("h_drop", move || drop(h))?;
                        if fired_in(ctl, l) {
                            st.fault_in_drop = true;
                        }
                    }
                    None
                }
                WOp::Write { slot, .. } | WOp::WriteAll { slot, .. } | WOp::SeekStart { slot, .. } | WOp::SeekEnd { slot } | WOp::SetLen { slot, .. } | WOp::Flush { slot } | WOp::Read { slot, .. } => {
                    let s = *slot as usize % handles.len();
                    match handles[s].as_mut() {
                        None => None,
                        Some(h) => {
                            let had_unflushed = !h.accepted.is_empty();
                            let r: std::io::Result<()> = match op {
                                WOp::Write { data, .. } | WOp::WriteAll { data, .. } => {
                                    let bytes = data.bytes();
                                    let all = matches!(op, WOp::WriteAll { .. });
                                    let pos = guard("h_pos", || h.stream.stream_position())?;
                                    match pos {
                                        Err(e) => Err(e),
                                        Ok(pos) => {
                                            if all {
                                                // write_all = loop over write; account for each accepted chunk
                                                let mut off = 0usize;
                                                let mut out = Ok(());
                                                while off < bytes.len() {
                                                    match guard("h_write", || h.stream.write(&bytes[off..]))? {
                                                        Ok(0) => {
                                                            out = Err(std::io::Error::new(std::io::ErrorKind::WriteZero, "write returned 0"));
                                                            break;
                                                        }
                                                        Ok(k) => {
                                                            for i in 0..k {
                                                                h.accepted.insert(pos + (off + i) as u64, bytes[off + i]);
                                                            }
                                                            off += k;
                                                        }
                                                        Err(e) => {
                                                            out = Err(e);
                                                            break;
                                                        }
                                                    }
                                                }
                                                out
                                            } else {
                                                match guard("h_write", || h.stream.write(&bytes))? {
                                                    Ok(k) => {
                                                        if k > bytes.len() {
                                                            return Err(Fail::new("write_fault|h_write|count", format!("write of {} bytes returned {}", bytes.len(), k)));
                                                        }
                                                        for i in 0..k {
                                                            h.accepted.insert(pos + i as u64, bytes[i]);
                                                        }
                                                        Ok(())
                                                    }
                                                    Err(e) => Err(e),
                                                }
                                            }
                                        }
                                    }
                                }
                                WOp::SeekStart { frac, .. } => {
                                    let len = guard("h_len", || h.stream.len())?;
                                    let t = (len as u128 * (*frac as u128 + 1) >> 16) as u64;
                                    guard("h_seek", || h.stream.seek(SeekFrom::Start(t)))?.map(|_| ())
                                }
                                WOp::SeekEnd { .. } => guard("h_seek", || h.stream.seek(SeekFrom::End(0)))?.map(|_| ()),
                                WOp::SetLen { len, .. } => {
                                    let cur = guard("h_len", || h.stream.len())?;
                                    let new = crate::engine_ops::resolve_len(len, cur);
                                    let r = guard("h_set_len", || h.stream.set_len(new))?;
                                    // truncated (or possibly truncated) offsets are no longer expected
                                    let cut = new.min(cur);
                                    let keep_below = if r.is_ok() { new } else { cut };
                                    h.accepted.retain(|&o, _| o < keep_below);
                                    if r.is_err() && new > cur {
                                        grow_failed = Some((h.name, cur));
                                    }
                                    if r.is_ok() && new > cur {
                                        grew_ok = Some((h.name, cur, new));
                                    }
                                    r
                                }
                                WOp::Read { n, .. } => {
                                    let mut buf = vec![0u8; *n as usize];
                                    guard("h_read", || h.stream.read(&mut buf))?.map(|_| ())
                                }
                                WOp::Flush { .. } => {
                                    let r = guard("h_flush", || h.stream.flush())?;
                                    if r.is_ok() {
                                        flush_ok_slot = Some(s);
                                        // (a library that skips the underlying flush when nothing was written
                                        // since the last successful one is not at fault)
                                        if ctl.lock().unwrap().dirty_since_flush {
                                            return Err(Fail::new("write_fault|h_flush|inner_flush_not_called", "Stream::flush returned Ok although data written to the underlying writer since its last successful flush was not flushed"));
                                        }
                                    }
                                    r
                                }
                                _ => unreachable!(),
                            };
                            if fired_in(ctl, l) && had_unflushed {
                                st.fault_in_writeback = true;
                                h.saw_writeback_fault = true;
                            }
                            Some(r)
                        }
                    }
                }
            };
            let fired_here = fired_in(ctl, l);
            match &res {
                None => break,
                Some(Ok(())) => {
                    trace.push(format!("{:?} -> Ok", op));
                    // (a) a fault during this call must have been reported
                    if fired_here {
                        return Err(Fail::new(format!("write_fault|{}|fault_swallowed", wop_kind(op)), format!("a write/seek/flush fault fired during {:?} but the call returned Ok", op)));
                    }
                    // C08's clause after earlier faults: the range gained by a successful
                    // set_len reads as zero (a fresh handle on the live object)
                    if let Some((name, old_len, new_len)) = grew_ok {
                        let enabled = {
                            let mut g = ctl.lock().unwrap();
                            let e = g.faults_enabled;
                            g.faults_enabled = false;
                            e
                        };
                        let got = guard("readback", || -> std::io::Result<Vec<u8>> {
                            let mut f = c.open_stream(WNAMES[name])?;
                            let mut v = Vec::new();
                            f.read_to_end(&mut v)?;
                            Ok(v)
                        })?;
                        ctl.lock().unwrap().faults_enabled = enabled;
                        if let Ok(v) = got {
                            let hi = (new_len as usize).min(v.len());
                            if (old_len as usize) < hi {
                                if let Some(i) = v[old_len as usize..hi].iter().position(|&b| b != 0) {
                                    return Err(Fail::new("write_fault|set_len_ok|grown_nonzero", format!("set_len on {} grew the stream {} -> {} (Ok) but byte {} of the gained range reads {:#x}", WNAMES[name], old_len, new_len, old_len as usize + i, v[old_len as usize + i])));
                                }
                            }
                        }
                    }
                    // (c) successful flush => everything accepted is readable through a fresh handle
                    if let Some(s) = flush_ok_slot.filter(|&s| !handles[s].as_ref().unwrap().accepted.is_empty()) {
                        let (name, expected, after_fault) = {
                            let h = handles[s].as_ref().unwrap();
                            (h.name, h.accepted.clone(), h.saw_writeback_fault)
                        };
                        st.flush_ok_checks += 1;
                        if after_fault {
                            st.flush_ok_after_writeback_fault = true;
                        }
                        let enabled = {
                            let mut g = ctl.lock().unwrap();
                            let e = g.faults_enabled;
                            g.faults_enabled = false;
                            e
                        };
                        let got = guard("readback", || -> std::io::Result<Vec<u8>> {
                            let mut f = c.open_stream(WNAMES[name])?;
                            let mut v = Vec::new();
                            f.read_to_end(&mut v)?;
                            Ok(v)
                        })?;
                        ctl.lock().unwrap().faults_enabled = enabled;
                        // "in the compound file": also what the raw bytes show when they are opened
                        // again. Judged only if the image opens and the stream is found - damage
                        // that an earlier failed call left elsewhere is not this clause's business.
                        let snap = Io { data: ctl_image(&c_io), pos: 0, ctl: None, cap: crate::backend::DEFAULT_CAP, file: None, file_path: None };
                        let reopened = guard("reopen", || open_options(None, false).open_with(Io::from_bytes(snap.snapshot())))?;
                        if let Err(e) = &reopened {
                            st.reopen_problems.push(format!("open: {}", normalise_msg(&e.to_string())));
                        }
                        if namespace_call_failed {
                            st.reopen_skipped_after_failed_namespace_call += 1;
                        }
                        if let (Ok(mut again), false) = (reopened, namespace_call_failed) {
                            let rb = guard("readback_reopened", || -> std::io::Result<Vec<u8>> {
                                let mut f = again.open_stream(WNAMES[name])?;
                                let mut v = Vec::new();
                                f.read_to_end(&mut v)?;
                                Ok(v)
                            })?;
                            if let Err(e) = &rb {
                                st.reopen_problems.push(format!("read: {}", normalise_msg(&e.to_string())));
                            }
                            if let Ok(v) = rb {
                                st.reopen_checks += 1;
                                if let Some((&o, &b)) = expected.iter().find(|(&o, &b)| v.get(o as usize) != Some(&b)) {
                                    return Err(Fail::new(
                                        format!("write_fault|flush_ok|not_in_file{}", if after_fault { "|after_failed_writeback" } else { "" }),
                                        format!("flush returned Ok and the live object reads the data back, but the raw bytes reopened show {} of length {} without the accepted byte at offset {} (expected {:#x}, got {:?})", WNAMES[name], v.len(), o, b, v.get(o as usize)),
                                    ));
                                }
                            }
                        }
                        match got {
                            Err(e) => return Err(Fail::new("write_fault|flush_ok|readback_err", format!("flush returned Ok but reading {} back through a fresh handle failed: {}", WNAMES[name], e))),
                            Ok(v) => {
                                let mut bad = 0usize;
                                let mut first = None;
                                for (&o, &b) in expected.iter() {
                                    if v.get(o as usize) != Some(&b) {
                                        bad += 1;
                                        if first.is_none() {
                                            first = Some((o, b, v.get(o as usize).copied()));
                                        }
                                    }
                                }
                                if bad > 0 {
                                    return Err(Fail::new(
                                        format!("write_fault|flush_ok|data_lost{}", if after_fault { "|after_failed_writeback" } else { "" }),
                                        format!("flush returned Ok but {} of {} bytes accepted by earlier writes are not in {} (stream length {}); first: offset {} expected {:#x} got {:?}", bad, expected.len(), WNAMES[name], v.len(), first.unwrap().0, first.unwrap().1, first.unwrap().2),
                                    ));
                                }
                                durable.insert(name, expected.clone());
                            }
                        }
                    }
                    // what earlier successful flushes made durable is still read back by a fresh
                    // handle, whatever happened to other objects since (checked after every
                    // successful flush of the whole file)
                    if matches!(op, WOp::CfbFlush) {
                        check_durable(&mut c, ctl, &durable, &mut st)?;
                    }
                    break;
                }
                Some(Err(e)) => {
                    trace.push(format!("{:?} -> Err({:?}: {}) [attempt {}]{}", op, e.kind(), e, attempt, if fired_here { " [fault fired in this call]" } else { "" }));
                    if fired_here && matches!(op, WOp::CreateStorage { .. } | WOp::RemoveStorage { .. } | WOp::CreateStream { .. } | WOp::RemoveStream { .. } | WOp::RemoveAll { .. }) {
                        namespace_call_failed = true;
                    }
                    // C08's clause under faults: if the failed set_len made the stream longer
                    // after all, the bytes gained must still read as zero
                    if let Some((name, before)) = grow_failed {
                        let enabled = {
                            let mut g = ctl.lock().unwrap();
                            let e = g.faults_enabled;
                            g.faults_enabled = false;
                            e
                        };
                        let got = guard("readback", || -> std::io::Result<Vec<u8>> {
                            let mut f = c.open_stream(WNAMES[name])?;
                            let mut v = Vec::new();
                            f.read_to_end(&mut v)?;
                            Ok(v)
                        })?;
                        ctl.lock().unwrap().faults_enabled = enabled;
                        if let Ok(v) = got {
                            if v.len() as u64 > before {
                                if let Some(i) = v[before as usize..].iter().position(|&b| b != 0) {
                                    return Err(Fail::new("write_fault|set_len_err|grown_nonzero", format!("set_len on {} failed but left the stream longer ({} -> {}), and byte {} of the gained range reads {:#x}", WNAMES[name], before, v.len(), before as usize + i, v[before as usize + i])));
                                }
                            }
                        }
                    }
                    // errors are allowed (later calls may fail); retry once
                }
            }
        }
    }
    // close everything (Drop faults are exempt); nothing may panic
    for s in 0..handles.len() {
        if let Some(h) = handles[s].take() {
            guard("h_drop", move || drop(h))?;
        }
    }
    guard("flush", || c.flush())?.ok();
    check_durable(&mut c, ctl, &durable, &mut st)?;
    st.n_calls = ctl.lock().unwrap().domain_seq;
    st.faults_fired = ctl.lock().unwrap().counters.faults_fired;
    Ok(st)
}

/// Every stream whose bytes a successful flush made durable (and that no call has touched
/// since) is read through a fresh handle on the live object, faults off. A read error is
/// tolerated (later calls may fail after a fault); bytes that differ are not.
fn check_durable(c: &mut Cfb, ctl: &Arc<Mutex<Ctl>>, durable: &BTreeMap<usize, BTreeMap<u64, u8>>, st: &mut WriteRunStats) -> Result<(), Fail> {
    if durable.is_empty() {
        return Ok(());
    }
    let enabled = {
        let mut g = ctl.lock().unwrap();
        let e = g.faults_enabled;
        g.faults_enabled = false;
        e
    };
    let mut out = Ok(());
    for (&name, expected) in durable.iter() {
        let got = guard("readback_durable", || -> std::io::Result<Vec<u8>> {
            let mut f = c.open_stream(WNAMES[name])?;
            let mut v = Vec::new();
            f.read_to_end(&mut v)?;
            Ok(v)
        });
        match got {
            Err(f) => {
                out = Err(f);
                break;
            }
            Ok(Err(_)) => st.durable_unreadable += 1,
            Ok(Ok(v)) => {
                st.durable_checks += 1;
                if let Some((&o, &b)) = expected.iter().find(|(&o, &b)| v.get(o as usize) != Some(&b)) {
                    out = Err(Fail::new(
                        "write_fault|flush_ok|later_corrupted",
                        format!("flush on a handle of {} returned Ok and the data was read back then; no call has touched that stream since, but a fresh handle now reads length {} with byte {} = {:?} (expected {:#x})", WNAMES[name], v.len(), o, v.get(o as usize), b),
                    ));
                    break;
                }
            }
        }
    }
    ctl.lock().unwrap().faults_enabled = enabled;
    out
}

fn wop_kind(op: &WOp) -> &'static str {
    match op {
        WOp::CreateStorage { .. } => "create_storage",
        WOp::RemoveStorage { .. } => "remove_storage",
        WOp::CreateStream { .. } => "create_stream",
        WOp::OpenStream { .. } => "open_stream",
        WOp::Write { .. } => "h_write",
        WOp::WriteAll { .. } => "h_write_all",
        WOp::SeekStart { .. } | WOp::SeekEnd { .. } => "h_seek",
        WOp::SetLen { .. } => "h_set_len",
        WOp::Flush { .. } => "h_flush",
        WOp::Read { .. } => "h_read",
        WOp::Close { .. } => "h_close",
        WOp::RemoveStream { .. } => "remove_stream",
        WOp::SetState { .. } => "set_state_bits",
        WOp::CfbFlush => "flush",
        WOp::Walk => "walk",
        WOp::RemoveAll { .. } => "remove_storage_all",
    }
}

//! Generic exploration runner: proptest driven from the binary, worker subprocesses,
//! known findings, replay files, evidence (DESIGN 2.3-2.6).

use crate::util::*;
use proptest::strategy::BoxedStrategy;
use proptest::test_runner::{Config, RngSeed, TestCaseError, TestError, TestRunner};
use serde::de::DeserializeOwned;
use serde::{Deserialize, Serialize};
use serde_json::{json, Value};
use std::collections::{BTreeMap, BTreeSet};
use std::io::{BufRead, BufReader, Write};
use std::path::{Path, PathBuf};
use std::process::{Command, Stdio};
use std::sync::{Arc, Mutex};
use std::time::{Duration, Instant};

pub const VERIF_DIR: &str = "/verif";

#[derive(Clone, Copy, Debug, PartialEq, Eq)]
pub enum Tier {
    Quick,
    Thorough,
}

impl Tier {
    pub fn name(&self) -> &'static str {
        match self {
            Tier::Quick => "quick",
            Tier::Thorough => "thorough",
        }
    }
    pub fn parse(s: &str) -> Option<Tier> {
        match s {
            "quick" => Some(Tier::Quick),
            "thorough" => Some(Tier::Thorough),
            _ => None,
        }
    }
}

#[derive(Clone, Debug)]
pub struct Ctx {
    pub id: String,
    pub tier: Tier,
    pub seed: u64,
    pub worker: usize,
    pub nworkers: usize,
    pub cases: u64,
    /// Some(k): do not run anything, dump the k-th generated case to `dump_to` and stop
    pub dump_index: Option<u64>,
    pub dump_to: Option<PathBuf>,
}

/// What running one case reports.
#[derive(Clone, Debug, Default)]
pub struct CaseReport {
    pub fail: Option<Fail>,
    pub nontrivial: bool,
    pub classes: Vec<String>,
    pub excluded: u64,
    /// number of executions this case stands for (fault enumeration: one per fault position)
    pub evaluations: u64,
    /// extra distinct non-trivial items counted by the property itself (hashes)
    pub nontrivial_items: Vec<u64>,
    pub trace: Vec<String>,
}

#[derive(Clone, Debug, Serialize, Deserialize, Default)]
pub struct Violation {
    pub key: String,
    pub detail: String,
    pub case: Value,
    pub trace: Vec<String>,
}

#[derive(Clone, Debug, Serialize, Deserialize, Default)]
pub struct WorkerResult {
    pub evaluations: u64,
    pub cases: u64,
    pub nontrivial_hashes: Vec<u64>,
    pub classes: BTreeMap<String, u64>,
    pub samples: Vec<Value>,
    pub nontrivial_samples: Vec<Value>,
    pub excluded: u64,
    pub known_hits: BTreeMap<String, String>,
    pub violation: Option<Violation>,
    pub wall_s: f64,
    pub harness_error: Option<String>,
}

pub struct Known {
    /// (property, key) -> description
    pub known: BTreeMap<(String, String), String>,
}

impl Known {
    pub fn load() -> Known {
        let mut known = BTreeMap::new();
        let path = format!("{}/known_findings.txt", VERIF_DIR);
        if let Ok(text) = std::fs::read_to_string(&path) {
            for line in text.lines() {
                let line = line.trim();
                if let Some(rest) = line.strip_prefix("known:") {
                    // known: property=<ID> key=<key> :: <what>
                    let (head, what) = match rest.split_once("::") {
                        Some((h, w)) => (h.trim(), w.trim()),
                        None => (rest.trim(), ""),
                    };
                    let mut prop = None;
                    let mut key = None;
                    if let Some(p) = head.strip_prefix("property=") {
                        if let Some((id, k)) = p.split_once(" key=") {
                            prop = Some(id.trim().to_string());
                            key = Some(k.trim().to_string());
                        }
                    }
                    if let (Some(p), Some(k)) = (prop, key) {
                        known.insert((p, k), what.to_string());
                    }
                }
            }
        }
        Known { known }
    }
    pub fn lookup(&self, prop: &str, key: &str) -> Option<&String> {
        self.known.get(&(prop.to_string(), key.to_string()))
    }
    pub fn for_property(&self, prop: &str) -> Vec<(String, String)> {
        self.known.iter().filter(|((p, _), _)| p == prop).map(|((_, k), w)| (k.clone(), w.clone())).collect()
    }
}

/// Runs the proptest loop of one worker.
pub fn run_worker<C, F>(ctx: &Ctx, strategy: BoxedStrategy<C>, run: F) -> WorkerResult
where
    C: Serialize + DeserializeOwned + Clone + std::fmt::Debug + 'static,
    F: Fn(&C) -> CaseReport,
{
    let t0 = Instant::now();
    let known = Known::load();
    let seed = ctx.seed.wrapping_mul(1000).wrapping_add(ctx.worker as u64 + 1);
    let mut cfg = Config::default();
    cfg.cases = ctx.cases.min(u32::MAX as u64) as u32;
    cfg.max_shrink_iters = 3000;
    cfg.failure_persistence = None;
    cfg.rng_seed = RngSeed::Fixed(seed);
    cfg.verbose = 0;
    let mut runner = TestRunner::new(cfg);

    struct St {
        res: WorkerResult,
        hashes: BTreeSet<u64>,
        failed: bool,
        last_fail: Option<(Fail, Vec<String>)>,
        index: u64,
    }
    let st = std::cell::RefCell::new(St { res: WorkerResult::default(), hashes: BTreeSet::new(), failed: false, last_fail: None, index: 0 });
    let stdout = std::io::stdout();

    let result = runner.run(&strategy, |case| {
        let mut s = st.borrow_mut();
        let idx = s.index;
        s.index += 1;
        if let Some(k) = ctx.dump_index {
            if idx == k {
                if let Some(p) = &ctx.dump_to {
                    let _ = std::fs::write(p, serde_json::to_string(&case).unwrap());
                }
                return Err(TestCaseError::fail("dumped"));
            }
            if idx > k {
                // shrinking after the dump: pass immediately
                return Ok(());
            }
            return Ok(());
        }
        if !s.failed {
            let mut out = stdout.lock();
            let _ = writeln!(out, "S {}", idx);
            let _ = out.flush();
        }
        drop(s);
        let rep = match std::panic::catch_unwind(std::panic::AssertUnwindSafe(|| run(&case))) {
            Ok(r) => r,
            Err(_) => {
                let (loc, msg) = take_panic().unwrap_or(("?".into(), "?".into()));
                match crate::lockwatch::classify(&msg) {
                    Some((key, detail)) => CaseReport { fail: Some(Fail::new(key, detail)), evaluations: 1, ..CaseReport::default() },
                    None => CaseReport { fail: Some(Fail::new("harness|panic", format!("harness code panicked at {}: {}", loc, msg))), evaluations: 1, ..CaseReport::default() },
                }
            }
        };
        let mut s = st.borrow_mut();
        let counting = !s.failed;
        if counting {
            s.res.cases += 1;
            s.res.evaluations += rep.evaluations.max(1);
            s.res.excluded += rep.excluded;
            for c in rep.classes.iter() {
                *s.res.classes.entry(c.clone()).or_insert(0) += 1;
            }
            if s.res.samples.len() < 2 {
                let v = serde_json::to_value(&case).unwrap_or(Value::Null);
                s.res.samples.push(v);
            }
            for h in rep.nontrivial_items.iter() {
                s.hashes.insert(*h);
            }
            if rep.nontrivial {
                let text = serde_json::to_string(&case).unwrap_or_default();
                let h = fnv64(text.as_bytes());
                if s.hashes.insert(h) && s.res.nontrivial_samples.len() < 2 {
                    s.res.nontrivial_samples.push(serde_json::from_str(&text).unwrap_or(Value::Null));
                }
            }
        }
        match rep.fail {
            None => Ok(()),
            Some(f) => {
                if let Some(what) = known.lookup(&ctx.id, &f.key) {
                    if counting {
                        s.res.known_hits.entry(f.key.clone()).or_insert_with(|| what.clone());
                    }
                    return Ok(());
                }
                if f.key.starts_with("harness|") {
                    s.res.harness_error = Some(format!("{}: {}", f.key, f.detail));
                }
                s.failed = true;
                let key = f.key.clone();
                s.last_fail = Some((f, rep.trace));
                Err(TestCaseError::fail(key))
            }
        }
    });

    let mut s = st.into_inner();
    s.res.nontrivial_hashes = s.hashes.into_iter().collect();
    if ctx.dump_index.is_some() {
        return s.res;
    }
    match result {
        Ok(()) => {}
        Err(TestError::Fail(_, minimal)) => {
            // re-run the minimal case to get its own key, detail and trace
            let rep = match std::panic::catch_unwind(std::panic::AssertUnwindSafe(|| run(&minimal))) {
                Ok(r) => r,
                Err(_) => CaseReport { fail: Some(Fail::new("harness|panic", "harness code panicked on the minimal case")), ..CaseReport::default() },
            };
            let (f, trace) = match rep.fail {
                Some(f) if known.lookup(&ctx.id, &f.key).is_none() => (f, rep.trace),
                _ => s.last_fail.take().unwrap_or((Fail::new("unknown", "failure did not reproduce on the minimal case"), vec![])),
            };
            s.res.violation = Some(Violation { key: f.key, detail: f.detail, case: serde_json::to_value(&minimal).unwrap_or(Value::Null), trace });
        }
        Err(TestError::Abort(reason)) => {
            s.res.harness_error = Some(format!("proptest aborted: {}", reason));
        }
    }
    s.res.wall_s = t0.elapsed().as_secs_f64();
    s.res
}

/// Runs a single saved case (replay tier / solo confirmation).
pub fn run_solo<C, F>(case_json: &Value, run: F) -> Result<CaseReport, String>
where
    C: DeserializeOwned,
    F: Fn(&C) -> CaseReport,
{
    let case: C = serde_json::from_value(case_json.clone()).map_err(|e| format!("cannot decode case: {}", e))?;
    Ok(run(&case))
}

// ---------------------------------------------------------------------------------------
// parent side

pub struct PropDef {
    pub id: &'static str,
    pub level: &'static str,
    pub rule: &'static str,
    pub assumptions: &'static [&'static str],
    pub quick_cases: u64,
    pub thorough_cases: u64,
    pub worker: fn(&Ctx) -> WorkerResult,
    /// runs one saved case
    pub solo: fn(&Value) -> Result<CaseReport, String>,
    /// normal CPU cost per case is far below this many seconds
    pub hang_cpu_s: f64,
    /// extra work done by the parent after the workers (e.g. libFuzzer campaign); returns
    /// extra evidence fields and optional violation
    pub extra: Option<fn(&Ctx, &mut Value) -> Option<Violation>>,
    /// confirm cases run every time to print KNOWN-FINDING lines: (key, case json)
    pub confirm_known: bool,
}

fn exe() -> PathBuf {
    std::env::current_exe().expect("current exe")
}

fn cpu_seconds(pid: u32) -> Option<f64> {
    let s = std::fs::read_to_string(format!("/proc/{}/stat", pid)).ok()?;
    let rest = s.rsplit_once(')')?.1;
    let f: Vec<&str> = rest.split_whitespace().collect();
    // after ')' : state is f[0]; utime = field 14 overall => index 11 here, stime 12
    let ut: f64 = f.get(11)?.parse().ok()?;
    let stt: f64 = f.get(12)?.parse().ok()?;
    let hz = unsafe { libc::sysconf(libc::_SC_CLK_TCK) } as f64;
    Some((ut + stt) / hz)
}

pub fn replay_dir(id: &str) -> PathBuf {
    let base = std::env::var("VERIF_REPLAY_DIR").unwrap_or_else(|_| format!("{}/replays", VERIF_DIR));
    PathBuf::from(base).join(id)
}

pub fn evidence_path(id: &str) -> PathBuf {
    let base = std::env::var("VERIF_EVIDENCE_DIR").unwrap_or_else(|_| format!("{}/evidence", VERIF_DIR));
    PathBuf::from(base).join(format!("{}.json", id))
}

pub fn write_replay(id: &str, v: &Violation) -> PathBuf {
    let dir = replay_dir(id).join("found");
    let _ = std::fs::create_dir_all(&dir);
    let text = serde_json::to_string_pretty(&json!({"property": id, "key": v.key, "detail": v.detail, "case": v.case, "trace": v.trace})).unwrap();
    let name = format!("{:016x}.json", fnv64(serde_json::to_string(&v.case).unwrap_or_default().as_bytes()));
    let p = dir.join(name);
    let _ = std::fs::write(&p, text);
    p
}

#[derive(Debug)]
pub enum SoloOutcome {
    Pass,
    Fail(String, String),
    Known(String),
    Hang,
    Abort(String),
    Harness(String),
}

/// Runs one case alone in a fresh process under CPU and address-space limits.
pub fn solo_process(id: &str, case_file: &Path, cpu_limit_s: u64) -> SoloOutcome {
    use std::os::unix::process::CommandExt;
    use std::os::unix::process::ExitStatusExt;
    let mut cmd = Command::new(exe());
    cmd.arg("solo").arg(id).arg(case_file).stdout(Stdio::piped()).stderr(Stdio::null());
    unsafe {
        cmd.pre_exec(move || {
            let cpu = libc::rlimit { rlim_cur: cpu_limit_s, rlim_max: cpu_limit_s + 5 };
            libc::setrlimit(libc::RLIMIT_CPU, &cpu);
            let mem = libc::rlimit { rlim_cur: 6 << 30, rlim_max: 6 << 30 };
            libc::setrlimit(libc::RLIMIT_AS, &mem);
            Ok(())
        });
    }
    let out = match cmd.output() {
        Ok(o) => o,
        Err(e) => return SoloOutcome::Harness(format!("cannot spawn solo: {}", e)),
    };
    let text = String::from_utf8_lossy(&out.stdout).to_string();
    if let Some(sig) = out.status.signal() {
        if sig == libc::SIGXCPU || sig == libc::SIGKILL {
            return SoloOutcome::Hang;
        }
        return SoloOutcome::Abort(format!("signal {}", sig));
    }
    for line in text.lines() {
        if let Some(rest) = line.strip_prefix("SOLO-FAIL ") {
            if let Ok(v) = serde_json::from_str::<Value>(rest) {
                return SoloOutcome::Fail(v["key"].as_str().unwrap_or("").to_string(), v["detail"].as_str().unwrap_or("").to_string());
            }
        }
        if let Some(rest) = line.strip_prefix("SOLO-KNOWN ") {
            return SoloOutcome::Known(rest.to_string());
        }
        if line.starts_with("SOLO-PASS") {
            return SoloOutcome::Pass;
        }
    }
    match out.status.code() {
        Some(0) => SoloOutcome::Pass,
        Some(c) => SoloOutcome::Abort(format!("exit code {} without result", c)),
        None => SoloOutcome::Abort("no exit code".into()),
    }
}

/// Runs the property's scenario step (`extra`) in a child process. Returns the coverage
/// fields it reported and its violation, if any.
fn extra_process(id: &str, tier: Tier, seed: u64, scratch: &Path) -> (Value, Option<Violation>) {
    use std::os::unix::process::CommandExt;
    use std::os::unix::process::ExitStatusExt;
    let out_file = scratch.join("extra.json");
    let _ = std::fs::create_dir_all(scratch);
    let cpu_limit_s: u64 = env_u64("VERIF_EXTRA_CPU_S", if tier == Tier::Thorough { 4 * 3600 } else { 1500 });
    let mut cmd = Command::new(exe());
    cmd.arg("extra").arg(id).arg(tier.name()).arg(seed.to_string()).arg(&out_file).stdout(Stdio::inherit()).stderr(Stdio::null());
    unsafe {
        cmd.pre_exec(move || {
            let cpu = libc::rlimit { rlim_cur: cpu_limit_s, rlim_max: cpu_limit_s + 5 };
            libc::setrlimit(libc::RLIMIT_CPU, &cpu);
            Ok(())
        });
    }
    let status = match cmd.status() {
        Ok(s) => s,
        Err(e) => return (json!({}), Some(Violation { key: "harness|extra_spawn".into(), detail: e.to_string(), case: Value::Null, trace: vec![] })),
    };
    let parsed: Option<Value> = std::fs::read_to_string(&out_file).ok().and_then(|t| serde_json::from_str(&t).ok());
    if let Some(v) = parsed {
        let viol = if v["violation"].is_null() {
            None
        } else {
            Some(Violation {
                key: v["violation"]["key"].as_str().unwrap_or("").to_string(),
                detail: v["violation"]["detail"].as_str().unwrap_or("").to_string(),
                case: v["violation"]["case"].clone(),
                trace: v["violation"]["trace"].as_array().map(|a| a.iter().filter_map(|x| x.as_str().map(|s| s.to_string())).collect()).unwrap_or_default(),
            })
        };
        return (v["coverage"].clone(), viol);
    }
    let what = format!("scenario step of {}", id);
    if let Some(sig) = status.signal() {
        if sig == libc::SIGXCPU || sig == libc::SIGKILL {
            return (json!({}), Some(Violation { key: "hang|scenario_step".into(), detail: format!("the {} exceeded {} CPU-seconds running alone (normal cost: seconds)", what, cpu_limit_s), case: json!({"scenario": what}), trace: vec![] }));
        }
        return (json!({}), Some(Violation { key: format!("abort|scenario_step|signal {}", sig), detail: format!("the {} was killed by signal {} (stack overflow or allocation failure)", what, sig), case: json!({"scenario": what}), trace: vec![] }));
    }
    (json!({}), Some(Violation { key: "harness|extra_no_result".into(), detail: format!("the {} ended with {:?} and no result", what, status.code()), case: Value::Null, trace: vec![] }))
}

/// Whether the `fz_hist` campaign belongs to this run (history properties, thorough tier or
/// VERIF_FUZZ set).
pub fn hist_fuzz_wanted(id: &str, tier: Tier) -> bool {
    crate::props::hist::FUZZ_PROPS.contains(&id) && (tier == Tier::Thorough || std::env::var("VERIF_FUZZ").is_ok())
}

/// `cfbverif extra <ID> <tier> <seed> <out>`: child side of `extra_process`.
pub fn extra_main(def: &PropDef, tier: Tier, seed: u64, out: &Path) -> i32 {
    let ctx = Ctx { id: def.id.to_string(), tier, seed, worker: 0, nworkers: 16, cases: 0, dump_index: None, dump_to: None };
    let mut ev = json!({"coverage": {}});
    let mut viol = match def.extra {
        Some(extra) => extra(&ctx, &mut ev),
        None => None,
    };
    // history properties: coverage-guided campaign over histories (thorough tier / VERIF_FUZZ)
    if viol.is_none() && hist_fuzz_wanted(def.id, tier) {
        viol = crate::fuzzrun::hist_campaign(&ctx, &mut ev, def.id);
    }
    let v = json!({
        "coverage": ev["coverage"],
        "violation": viol.map(|v| json!({"key": v.key, "detail": v.detail, "case": v.case, "trace": v.trace})),
    });
    match std::fs::write(out, serde_json::to_string(&v).unwrap_or_default()) {
        Ok(()) => 0,
        Err(_) => 2,
    }
}

/// `cfbverif solo <ID> <file>`: child side.
pub fn solo_main(def: &PropDef, file: &Path) -> i32 {
    let text = match std::fs::read_to_string(file) {
        Ok(t) => t,
        Err(e) => {
            println!("cannot read {}: {}", file.display(), e);
            return 2;
        }
    };
    let v: Value = match serde_json::from_str(&text) {
        Ok(v) => v,
        Err(e) => {
            println!("cannot parse {}: {}", file.display(), e);
            return 2;
        }
    };
    let case = if v.get("case").is_some() && v.get("property").is_some() { v["case"].clone() } else { v };
    // a scenario of the property's deterministic `extra` step: its replay is that step again
    if case.get("scenario").is_some() || case.get("note").is_some() {
        let extra = match def.extra {
            Some(x) => x,
            None => {
                println!("SOLO-ERROR scenario case but the property has no scenario step");
                return 2;
            }
        };
        std::env::set_var("VERIF_SCENARIOS_ONLY", "1");
        let ctx = Ctx { id: def.id.to_string(), tier: Tier::Quick, seed: 1, worker: 0, nworkers: 1, cases: 1, dump_index: None, dump_to: None };
        let mut ev = json!({"coverage": {}});
        return match extra(&ctx, &mut ev) {
            None => {
                println!("SOLO-PASS");
                0
            }
            Some(v) if v.key.starts_with("harness|") => {
                println!("SOLO-ERROR {}: {}", v.key, v.detail);
                2
            }
            Some(v) => {
                if Known::load().lookup(def.id, &v.key).is_some() {
                    println!("SOLO-KNOWN {}", v.key);
                    return 0;
                }
                println!("SOLO-FAIL {}", json!({"key": v.key, "detail": v.detail}));
                for t in v.trace.iter() {
                    println!("  {}", t);
                }
                1
            }
        };
    }
    match (def.solo)(&case) {
        Err(e) => {
            println!("SOLO-ERROR {}", e);
            2
        }
        Ok(rep) => match rep.fail {
            None => {
                println!("SOLO-PASS");
                0
            }
            Some(f) => {
                let known = Known::load();
                if known.lookup(def.id, &f.key).is_some() {
                    println!("SOLO-KNOWN {}", f.key);
                    return 0;
                }
                println!("SOLO-FAIL {}", json!({"key": f.key, "detail": f.detail}));
                for t in rep.trace.iter() {
                    println!("  {}", t);
                }
                1
            }
        },
    }
}

/// Regenerates the `index`-th case of a worker (deterministic in the seed) without running.
fn regen_case(id: &str, tier: Tier, seed: u64, worker: usize, nworkers: usize, index: u64, out: &Path) -> bool {
    let st = Command::new(exe())
        .arg("worker")
        .arg(id)
        .arg(tier.name())
        .arg(seed.to_string())
        .arg(worker.to_string())
        .arg(nworkers.to_string())
        .arg("-")
        .arg("--dump")
        .arg(index.to_string())
        .arg(out)
        .stdout(Stdio::null())
        .stderr(Stdio::null())
        .status();
    st.is_ok() && out.exists()
}

pub fn scratch_dir() -> PathBuf {
    let base = std::env::var("VERIF_SCRATCH").unwrap_or_else(|_| format!("{}/harness/target/scratch", VERIF_DIR));
    let p = PathBuf::from(base).join(format!("run-{}", std::process::id()));
    let _ = std::fs::create_dir_all(&p);
    p
}

pub struct CheckResult {
    pub exit: i32,
}

/// `cfbverif check <ID> <tier>`: parent side.
pub fn check_main(def: &PropDef, tier: Tier) -> i32 {
    let t0 = Instant::now();
    let mut seed = env_u64("VERIF_SEED", 1);
    if seed == 0 {
        seed = 1;
    }
    let nworkers = env_u64("VERIF_WORKERS", 16).max(1) as usize;
    let scale = env_u64("VERIF_SCALE_PCT", 100);
    let cases = (match tier {
        Tier::Quick => def.quick_cases,
        Tier::Thorough => def.thorough_cases,
    } * scale / 100)
        .max(1);
    let known = Known::load();
    let scratch = scratch_dir();
    let mut violations: Vec<(String, PathBuf)> = Vec::new();
    let mut known_lines: BTreeMap<String, String> = BTreeMap::new();
    let mut inconclusive: Vec<String> = Vec::new();
    let mut replayed = 0u64;

    // ---- replay tier: every saved case for this property
    let mut replay_files: Vec<PathBuf> = Vec::new();
    for sub in ["regress", "found"] {
        if let Ok(rd) = std::fs::read_dir(replay_dir(def.id).join(sub)) {
            for e in rd.flatten() {
                if e.path().extension().map(|x| x == "json").unwrap_or(false) {
                    replay_files.push(e.path());
                }
            }
        }
    }
    replay_files.sort();
    for f in replay_files.iter() {
        replayed += 1;
        match solo_process(def.id, f, 120) {
            SoloOutcome::Pass => {}
            SoloOutcome::Known(k) => {
                let what = known.lookup(def.id, &k).cloned().unwrap_or_default();
                known_lines.insert(k, what);
            }
            SoloOutcome::Fail(k, d) => {
                println!("replay {} fails: {} :: {}", f.display(), k, d);
                violations.push((k, f.clone()));
            }
            SoloOutcome::Hang => {
                let k = "hang|replay".to_string();
                if let Some(w) = known.lookup(def.id, &k) {
                    known_lines.insert(k, w.clone());
                } else {
                    println!("replay {} hangs", f.display());
                    violations.push((k, f.clone()));
                }
            }
            SoloOutcome::Abort(m) => {
                println!("replay {} aborts: {}", f.display(), m);
                violations.push((format!("abort|{}", m), f.clone()));
            }
            SoloOutcome::Harness(m) => inconclusive.push(m),
        }
    }

    // ---- exploration: worker processes
    struct Child {
        idx: usize,
        proc: std::process::Child,
        inflight: Arc<Mutex<(Option<u64>, f64)>>,
        out: PathBuf,
        done: bool,
        killed_for_hang: Option<u64>,
        stopped_by_parent: bool,
    }
    let mut children: Vec<Child> = Vec::new();
    for i in 0..nworkers {
        let out = scratch.join(format!("w{}.json", i));
        let mut cmd = Command::new(exe());
        cmd.arg("worker").arg(def.id).arg(tier.name()).arg(seed.to_string()).arg(i.to_string()).arg(nworkers.to_string()).arg(&out);
        cmd.env("VERIF_CASES", cases.to_string());
        cmd.stdout(Stdio::piped()).stderr(Stdio::null());
        let mut proc = match cmd.spawn() {
            Ok(p) => p,
            Err(e) => {
                inconclusive.push(format!("cannot spawn worker: {}", e));
                continue;
            }
        };
        let pid = proc.id();
        let inflight = Arc::new(Mutex::new((None, 0.0)));
        let inf2 = inflight.clone();
        let stdout = proc.stdout.take().unwrap();
        std::thread::spawn(move || {
            let rd = BufReader::new(stdout);
            for line in rd.lines().flatten() {
                if let Some(rest) = line.strip_prefix("S ") {
                    if let Ok(k) = rest.trim().parse::<u64>() {
                        let cpu = cpu_seconds(pid).unwrap_or(0.0);
                        *inf2.lock().unwrap() = (Some(k), cpu);
                    }
                }
            }
        });
        children.push(Child { idx: i, proc, inflight, out, done: false, killed_for_hang: None, stopped_by_parent: false });
    }
    let wall_limit = Duration::from_secs(env_u64("VERIF_WALL_LIMIT_S", if tier == Tier::Quick { 1500 } else { 6 * 3600 }));
    loop {
        let mut all_done = true;
        // one suspected hang is enough: stop the other workers, the case is confirmed alone
        if children.iter().any(|c| c.killed_for_hang.is_some()) {
            for c in children.iter_mut() {
                if !c.done {
                    let _ = c.proc.kill();
                    let _ = c.proc.wait();
                    c.done = true;
                    c.stopped_by_parent = true;
                }
            }
        }
        for c in children.iter_mut() {
            if c.done {
                continue;
            }
            match c.proc.try_wait() {
                Ok(Some(_)) => c.done = true,
                Ok(None) => {
                    all_done = false;
                    let (k, cpu0) = *c.inflight.lock().unwrap();
                    if let (Some(k), Some(now)) = (k, cpu_seconds(c.proc.id())) {
                        if now - cpu0 > def.hang_cpu_s {
                            let _ = c.proc.kill();
                            let _ = c.proc.wait();
                            c.done = true;
                            c.killed_for_hang = Some(k);
                        }
                    }
                }
                Err(_) => c.done = true,
            }
        }
        if all_done {
            break;
        }
        if t0.elapsed() > wall_limit {
            for c in children.iter_mut() {
                if !c.done {
                    let _ = c.proc.kill();
                    let _ = c.proc.wait();
                    c.done = true;
                }
            }
            inconclusive.push("wall-clock safety net reached; workers stopped".into());
            break;
        }
        std::thread::sleep(Duration::from_millis(100));
    }

    // ---- merge
    let mut total = WorkerResult::default();
    let mut hashes: BTreeSet<u64> = BTreeSet::new();
    for c in children.iter_mut() {
        let res: Option<WorkerResult> = std::fs::read_to_string(&c.out).ok().and_then(|t| serde_json::from_str(&t).ok());
        match res {
            Some(r) => {
                total.evaluations += r.evaluations;
                total.cases += r.cases;
                total.excluded += r.excluded;
                for (k, v) in r.classes {
                    *total.classes.entry(k).or_insert(0) += v;
                }
                for h in r.nontrivial_hashes {
                    hashes.insert(h);
                }
                if total.samples.len() < 2 {
                    total.samples.extend(r.samples.into_iter().take(1));
                }
                if total.nontrivial_samples.len() < 2 {
                    total.nontrivial_samples.extend(r.nontrivial_samples.into_iter().take(1));
                }
                for (k, w) in r.known_hits {
                    known_lines.insert(k, w);
                }
                if let Some(e) = r.harness_error {
                    if let Some(v) = &r.violation {
                        let p = write_replay(def.id, v);
                        inconclusive.push(format!("{} (case saved as {})", e, p.display()));
                    } else {
                        inconclusive.push(e);
                    }
                } else if let Some(v) = r.violation {
                    let p = write_replay(def.id, &v);
                    println!("worker {}: {} :: {}", c.idx, v.key, v.detail);
                    for t in v.trace.iter().rev().take(12).rev() {
                        println!("    {}", t);
                    }
                    violations.push((v.key.clone(), p));
                }
            }
            None => {
                if c.stopped_by_parent {
                    continue;
                }
                // abnormal end: find the case in flight and confirm it alone
                let k = c.killed_for_hang.or_else(|| c.inflight.lock().unwrap().0);
                let status = c.proc.try_wait().ok().flatten();
                match k {
                    None => inconclusive.push(format!("worker {} ended without result ({:?})", c.idx, status)),
                    Some(k) => {
                        let cf = scratch.join(format!("inflight-w{}-{}.json", c.idx, k));
                        if !regen_case(def.id, tier, seed, c.idx, nworkers, k, &cf) {
                            inconclusive.push(format!("worker {} ended abnormally at case {} and the case could not be regenerated", c.idx, k));
                            continue;
                        }
                        let case: Value = std::fs::read_to_string(&cf).ok().and_then(|t| serde_json::from_str(&t).ok()).unwrap_or(Value::Null);
                        let outcome = solo_process(def.id, &cf, (2.0 * def.hang_cpu_s).max(60.0) as u64);
                        let (key, detail) = match outcome {
                            SoloOutcome::Hang => ("hang|cpu_budget".to_string(), format!("case {} of worker {} exceeded {} CPU-seconds alone (normal cost is far below)", k, c.idx, (2.0 * def.hang_cpu_s).max(60.0) as u64)),
                            SoloOutcome::Abort(m) => (format!("abort|{}", m), format!("case {} of worker {} killed the process: {}", k, c.idx, m)),
                            SoloOutcome::Fail(key, d) => (key, d),
                            SoloOutcome::Known(key) => {
                                let w = known.lookup(def.id, &key).cloned().unwrap_or_default();
                                known_lines.insert(key, w);
                                continue;
                            }
                            SoloOutcome::Pass => {
                                inconclusive.push(format!("worker {} ended abnormally at case {} ({:?}) but the case passes alone", c.idx, k, status));
                                continue;
                            }
                            SoloOutcome::Harness(m) => {
                                inconclusive.push(m);
                                continue;
                            }
                        };
                        if let Some(w) = known.lookup(def.id, &key) {
                            known_lines.insert(key, w.clone());
                        } else {
                            let v = Violation { key: key.clone(), detail: detail.clone(), case, trace: vec![] };
                            let p = write_replay(def.id, &v);
                            println!("worker {}: {} :: {}", c.idx, key, detail);
                            violations.push((key, p));
                        }
                    }
                }
            }
        }
    }

    // ---- evidence
    let mut samples = total.samples.clone();
    samples.extend(total.nontrivial_samples.clone());
    let mut ev = json!({
        "property_id": def.id,
        "tier": tier.name(),
        "seed": seed,
        "level": def.level,
        "coverage": {
            "evaluations": total.evaluations,
            "cases": total.cases,
            "distinct_nontrivial": hashes.len(),
            "rule": def.rule,
            "samples": samples,
            "classes": total.classes,
            "excluded": total.excluded,
            "replayed_saved_cases": replayed,
            "known_findings_hit": known_lines.keys().collect::<Vec<_>>(),
            "workers": nworkers,
            "cases_per_worker": cases,
            "exhaustive": false,
        },
        "assumptions": def.assumptions,
        "wall_s": 0.0,
        "violations": 0,
    });
    if def.extra.is_some() || hist_fuzz_wanted(def.id, tier) {
        // the scenario step runs alone in a child process under a CPU limit far above its
        // normal cost (it is single-threaded and has no other watchdog)
        let (fields, viol) = extra_process(def.id, tier, seed, &scratch);
        if let Some(obj) = fields.as_object() {
            for (k, v) in obj.iter() {
                ev["coverage"][k] = v.clone();
            }
        }
        if let Some(v) = viol {
            if v.key.starts_with("harness|") {
                inconclusive.push(format!("{}: {}", v.key, v.detail));
            } else if let Some(w) = known.lookup(def.id, &v.key) {
                known_lines.insert(v.key.clone(), w.clone());
            } else {
                let p = write_replay(def.id, &v);
                println!("extra: {} :: {}", v.key, v.detail);
                violations.push((v.key.clone(), p));
            }
        }
    }
    ev["wall_s"] = json!(t0.elapsed().as_secs_f64());
    ev["violations"] = json!(violations.len());
    ev["coverage"]["inconclusive"] = json!(inconclusive);
    let evp = evidence_path(def.id);
    if let Some(d) = evp.parent() {
        let _ = std::fs::create_dir_all(d);
    }
    let _ = std::fs::write(&evp, serde_json::to_string_pretty(&ev).unwrap());
    let _ = std::fs::remove_dir_all(&scratch);

    for (k, w) in known_lines.iter() {
        println!("KNOWN-FINDING: property={} {} [{}]", def.id, w, k);
    }
    // listed findings that did not show up in this run are only mentioned
    for (k, w) in known.for_property(def.id) {
        if !known_lines.contains_key(&k) {
            println!("note: listed finding not reproduced in this run: {} [{}]", w, k);
        }
    }
    println!(
        "{} {}: {} evaluations in {} cases, {} distinct non-trivial, {} saved cases replayed, {:.1}s",
        def.id,
        tier.name(),
        total.evaluations,
        total.cases,
        hashes.len(),
        replayed,
        t0.elapsed().as_secs_f64()
    );
    if !violations.is_empty() {
        for (_, p) in violations.iter() {
            println!("VIOLATION property={} replay={}", def.id, p.display());
        }
        return 1;
    }
    if !inconclusive.is_empty() {
        for m in inconclusive.iter() {
            println!("INCONCLUSIVE: {}", m);
        }
        return 2;
    }
    if total.evaluations == 0 {
        println!("INCONCLUSIVE: no case was evaluated");
        return 2;
    }
    0
}

/// `cfbverif worker ...`: child side.
pub fn worker_main(def: &PropDef, args: &[String]) -> i32 {
    // args: tier seed index nworkers outfile [--dump k file]
    let tier = Tier::parse(&args[0]).unwrap_or(Tier::Quick);
    let seed: u64 = args[1].parse().unwrap_or(1);
    let worker: usize = args[2].parse().unwrap_or(0);
    let nworkers: usize = args[3].parse().unwrap_or(1);
    let out = PathBuf::from(&args[4]);
    let mut ctx = Ctx {
        id: def.id.to_string(),
        tier,
        seed,
        worker,
        nworkers,
        cases: env_u64("VERIF_CASES", match tier {
            Tier::Quick => def.quick_cases,
            Tier::Thorough => def.thorough_cases,
        }),
        dump_index: None,
        dump_to: None,
    };
    if args.len() >= 8 && args[5] == "--dump" {
        ctx.dump_index = args[6].parse().ok();
        ctx.dump_to = Some(PathBuf::from(&args[7]));
        ctx.cases = ctx.dump_index.unwrap_or(0) + 1;
    }
    let res = (def.worker)(&ctx);
    if ctx.dump_index.is_none() {
        let _ = std::fs::write(&out, serde_json::to_string(&res).unwrap());
    }
    0
}

//! C04 - any valid layout written by another implementation is read correctly.

use crate::engine::{Engine, Oracles};
use crate::gen::*;
use crate::ops::*;
use crate::run::run_ops;
use crate::runner::*;
use crate::synth::*;
use crate::util::Fail;
use proptest::collection::vec;
use proptest::prelude::*;
use serde::{Deserialize, Serialize};
use serde_json::Value;

#[derive(Clone, Debug, Serialize, Deserialize)]
pub struct C04Case {
    pub version: u8,
    pub pool: Vec<String>,
    pub tree: TreeSpec,
    pub choices: Vec<u16>,
    pub surplus_fat: u8,
    pub ops: Vec<Op>,
    pub strict_first: bool,
}

pub fn item_strategy() -> BoxedStrategy<Item> {
    let sizes = prop_oneof![5 => size_strategy(12288), 1 => Just(0u32)];
    let kind = prop_oneof![
        3 => (sizes, any::<u8>()).prop_map(|(len, seed)| ItemKind::Stream { data: DataSpec { len, seed } }),
        2 => (clsid_strategy(), any::<u64>(), prop_oneof![1 => Just(0u64), 1 => Just(u64::MAX), 3 => any::<u64>()]).prop_map(|(clsid, created, modified)| ItemKind::Storage { clsid, created, modified }),
    ];
    (any::<u16>(), any::<u16>(), state_strategy(), kind).prop_map(|(parent, name, state, kind)| Item { parent, name, state, kind }).boxed()
}

pub fn tree_strategy(max_items: usize) -> BoxedStrategy<TreeSpec> {
    (clsid_strategy(), state_strategy(), any::<u64>(), any::<u64>(), vec(item_strategy(), 0..=max_items))
        .prop_map(|(root_clsid, root_state, root_created, root_modified, items)| TreeSpec { root_clsid, root_state, root_created, root_modified, items })
        .boxed()
}

fn strategy(tier: Tier) -> BoxedStrategy<C04Case> {
    let mut p = Profile::c01();
    p.handles = 10;
    p.fancy = 4;
    p.bad = 1;
    p.max_size = 9000;
    p.reopen = 3;
    let nops = if tier == Tier::Thorough { 30 } else { 15 };
    let surplus = prop_oneof![12 => Just(0u8), 1 => 1u8..4, 1 => 108u8..=112];
    (
        proptest::sample::select(vec![3u8, 4]),
        pool_strategy(NameProfile::Unicode, 3, 24),
        tree_strategy(40),
        vec(any::<u16>(), 0..60),
        surplus,
        vec(op_strategy(&p), 0..=nops),
        any::<bool>(),
    )
        .prop_map(|(version, pool, tree, choices, surplus_fat, ops, strict_first)| C04Case { version, pool, tree, choices, surplus_fat, ops, strict_first })
        .boxed()
}

pub fn oracles() -> Oracles {
    Oracles { dump_every: 3, reopen_check: true, reopen_replace_every: 5, checker_every: 1, final_reopen: true, measure_shapes: true, ..Oracles::default() }
}

fn report(c: &C04Case) -> CaseReport {
    let mut rep = CaseReport { evaluations: 1, ..CaseReport::default() };
    let model = build_model(&c.tree, &c.pool);
    // V4 surplus FAT sectors would need 110 * 4 KiB; keep DIFAT forcing to V3
    let surplus = if c.version == 4 && c.surplus_fat > 3 { 0 } else { c.surplus_fat as usize };
    let (img, info) = synthesize(&model, c.version, &c.choices, surplus);
    let rules = crate::refparse::check(&img);
    if let Some((id, d)) = rules.first() {
        rep.fail = Some(Fail::new("harness|synth_invalid", format!("synthesizer produced an image the independent checker rejects: {} {}", id, d)));
        return rep;
    }
    if info.fragmented_chain {
        rep.classes.push("fragmented_chain".into());
    }
    if info.red_node_in_tree_of_3 {
        rep.classes.push("red_node_in_tree_of_3plus".into());
    }
    if info.internal_red_level {
        rep.classes.push("internal_red_level".into());
    }
    if info.unallocated_gap {
        rep.classes.push("unallocated_gap".into());
    }
    if info.difat_sectors > 0 {
        rep.classes.push("difat_sector".into());
    }
    if info.fat_sectors > 1 {
        rep.classes.push("multi_fat".into());
    }
    if info.dir_sectors > 1 {
        rep.classes.push("multi_dir".into());
    }
    rep.classes.push(format!("version_{}", c.version));
    // (1)+(2): both modes open and expose the encoded content
    for strict in [c.strict_first, !c.strict_first] {
        let mut eng = match Engine::from_image(img.clone(), model.clone(), c.version, None, c.pool.clone(), oracles(), strict) {
            Ok(e) => e,
            Err(f) => {
                rep.fail = Some(f);
                return rep;
            }
        };
        if let Err(f) = eng.check_live_dump() {
            rep.fail = Some(Fail::new(f.key.replace("|live|", if strict { "|foreign_strict|" } else { "|foreign|" }), f.detail));
            rep.trace = eng.trace;
            return rep;
        }
        if strict != c.strict_first {
            break;
        }
        // (3): a short history on the foreign file with the C01-C03 oracles
        let (r, _) = run_ops(&mut eng, &c.ops, None);
        for k in ["removal_two_children", "reopen_replace", "multi_table_image"] {
            if eng.stats.has(k) {
                rep.classes.push(k.to_string());
            }
        }
        if let Err(f) = r {
            rep.fail = Some(f);
            rep.trace = eng.trace;
            return rep;
        }
    }
    rep.nontrivial = info.fragmented_chain && info.red_node_in_tree_of_3 && info.unallocated_gap;
    rep
}

fn worker(ctx: &Ctx) -> WorkerResult {
    run_worker(ctx, strategy(ctx.tier), report)
}

fn solo(v: &Value) -> Result<CaseReport, String> {
    run_solo(v, report)
}

fn big_foreign(_ctx: &Ctx, ev: &mut Value) -> Option<Violation> {
    match crate::props::scenarios::huge_foreign_file() {
        Ok(n) => {
            ev["coverage"]["huge_foreign_file_steps"] = serde_json::json!(n);
        }
        Err(v) => return Some(v),
    }
    match crate::props::scenarios::file_beyond_4gib() {
        Ok(n) => {
            ev["coverage"]["file_beyond_4gib_reads"] = serde_json::json!(n);
            None
        }
        Err(v) => Some(v),
    }
}

pub fn def() -> PropDef {
    PropDef {
        id: "C04",
        level: "exploration",
        rule: "model tree (<=40 entries, depth <=5, Unicode names incl. 2-unit characters and 31-unit names, streams 0-12 KiB around 64/4096/sector boundaries, arbitrary CLSID/state/time values on storages and the root) x layout plan from the independent synthesizer (harness/src/synth.rs: permuted sector placement incl. FAT/DIFAT/directory/MiniFAT/mini-stream sectors anywhere, fragmented chains, permuted mini sectors with free ones, permuted directory slots with unallocated gaps and trailing free entries, balanced red-black sibling trees or degenerate lists, surplus FAT sectors giving DIFAT sectors, garbage in slack and free sectors, header variation), every image first accepted by the independent checker. Oracle: open and open_strict succeed and the full dump equals the encoded model; then <=15 ops (C01 oracle) with reopen at every clean boundary (C02 oracle) and the checker after every op (C03 oracle). Non-trivial = layout has a fragmented chain, a storage with >=3 children in a non-perfect balanced tree (contains red nodes) and an unallocated directory slot before the last used one; distinct = distinct case JSON. Scenario steps: the 15.6 MB foreign file with two DIFAT sectors, and a valid version-4 file of 4 GiB + 10 MiB (sparse read-only backend: explicit header/directory/DIFAT/FAT, stream data by formula) read in both modes around file offset 2^32, stream offset 2^32, 2^31 and at the end.",
        assumptions: &["the synthesizer's idea of 'spec-valid' is MS-CFB as read by the harness author; each image is cross-checked by refparse.rs (also harness code)", "surplus FAT sectors that map only non-existent sectors are treated as legal"],
        quick_cases: 2000,
        thorough_cases: 25000,
        worker,
        solo,
        hang_cpu_s: 30.0,
        extra: Some(big_foreign),
        confirm_known: false,
    }
}

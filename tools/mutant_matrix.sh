#!/bin/bash
# Runs every mutant under /verif/mutants against the checks named in its .expect file
# (and the repository's own tests, which must stay green). Results: /verif/mutants/RESULTS.txt
cd /verif
out=/verif/mutants/RESULTS.txt
: > "$out.tmp"
[ -n "${MUT_FROM:-}" ] && [ -f "$out" ] && cp "$out" "$out.tmp"
for p in mutants/${1:-}*.patch; do
  id=$(basename "$p" .patch); exp=$(cat "mutants/$id.expect")
  if [ -n "${MUT_FROM:-}" ] && [[ "$id" < "$MUT_FROM" ]]; then continue; fi
  ids="$exp"; [ "$exp" = BENIGN ] && ids="C01 C02 C03 C07 C15 C18"
  echo "== $id (expect: $exp)" | tee -a "$out.tmp"
  MUT_TESTS=1 MUT_SCALE=${MUT_SCALE:-100} tools/run_mutant.sh "$p" $ids 2>&1 | sed 's/^/   /' | cut -c1-260 | tee -a "$out.tmp"
done
mv "$out.tmp" "$out"

//! C11 - mutating any file the library agreed to open never panics or hangs.

use crate::backend::Io;
use crate::blind::*;
use crate::corrupt::*;
use crate::engine::open_options;
use crate::gen::*;
use crate::ops::*;
use crate::props::c05::*;
use crate::refparse;
use crate::runner::*;
use crate::util::*;
use proptest::collection::vec;
use proptest::prelude::*;
use serde_json::Value;

/// Fields that permissive open does not validate.
fn target_strategy_unvalidated() -> BoxedStrategy<Target> {
    prop_oneof![
        // stream entries: start (13), size (14,15,16)
        8 => proptest::sample::select(vec![13u8, 14, 15, 16, 14, 13]).prop_map(|field| Target::Entry { class: 2, field }),
        // root: start, size
        4 => proptest::sample::select(vec![13u8, 14, 15]).prop_map(|field| Target::Entry { class: 1, field }),
        6 => proptest::sample::select(vec![3u8, 4, 5, 6, 7, 2]).prop_map(Target::FatCell),
        5 => (0u8..4).prop_map(Target::MiniFatCell),
        3 => proptest::sample::select(vec![3u8, 4, 9, 9, 2]).prop_map(Target::Cycle),
        1 => (0u8..5, 0u8..17).prop_map(|(class, field)| Target::Entry { class, field }),
        // header counters that permissive open does not check (num dir / fat / minifat / difat, txn)
        2 => proptest::sample::select(vec![6u8, 7, 12, 14, 9]).prop_map(Target::Header),
        // file length: trailing garbage / zero sectors, truncated tail
        2 => Just(Target::Extend),
        1 => Just(Target::Truncate),
        // chains that start in a sector beyond what the FAT sectors cover
        1 => proptest::sample::select(vec![6u8, 6, 4, 5, 0]).prop_map(Target::UncoveredRef),
    ]
    .boxed()
}

fn hop_mut_strategy() -> BoxedStrategy<HOp> {
    let d = || (proptest::sample::select(vec![1u32, 63, 64, 65, 500, 1024, 4095, 4096, 4097, 9000]), any::<u8>()).prop_map(|(len, seed)| DataSpec { len, seed });
    prop_oneof![
        5 => hop_read_strategy(),
        4 => d().prop_map(HOp::Write),
        3 => d().prop_map(HOp::WriteAll),
        3 => proptest::sample::select(vec![0u64, 1, 63, 64, 65, 4095, 4096, 4097, 10_000, 1 << 20]).prop_map(HOp::SetLen),
        4 => proptest::sample::select(vec![-4097i32, -4096, -65, -64, -1, 1, 64, 65, 4096, 4097]).prop_map(HOp::SetLenRel),
        2 => Just(HOp::Flush),
    ]
    .boxed()
}

fn mut_script_strategy() -> BoxedStrategy<Vec<BOp>> {
    let d = || (proptest::sample::select(vec![0u32, 1, 64, 65, 1000, 4095, 4096, 4097, 9000]), any::<u8>()).prop_map(|(len, seed)| DataSpec { len, seed });
    let bop = prop_oneof![
        8 => (any::<u16>(), vec(hop_mut_strategy(), 1..7)).prop_map(|(sel, script)| BOp::Stream { sel, script }),
        2 => vec(hop_mut_strategy(), 1..5).prop_map(|script| BOp::AllStreams { script }),
        1 => (any::<u16>(), 0u8..6, vec(hop_mut_strategy(), 1..5)).prop_map(|(sel, k, script)| BOp::IterWhileStream { sel, k, script }),
        3 => (any::<u16>(), vec(hop_mut_strategy(), 0..4), any::<u8>(), vec(hop_mut_strategy(), 1..6)).prop_map(|(sel, pre, how, post)| BOp::StaleHandle { sel, pre, how, post }),
        5 => (any::<u16>(), any::<u8>(), d()).prop_map(|(parent, name, data)| BOp::CreateStream { parent, name, data }),
        2 => (any::<u16>(), any::<u8>()).prop_map(|(parent, name)| BOp::CreateStorage { parent, name }),
        5 => any::<u16>().prop_map(|sel| BOp::RemoveStream { sel }),
        1 => any::<u16>().prop_map(|sel| BOp::RemoveStorage { sel }),
        2 => any::<u16>().prop_map(|sel| BOp::RemoveStorageAll { sel }),
        1 => (any::<u16>(), any::<u32>()).prop_map(|(sel, bits)| BOp::SetState { sel, bits }),
        1 => any::<u16>().prop_map(|sel| BOp::Touch { sel }),
        1 => Just(BOp::Walk),
        1 => Just(BOp::Flush),
    ];
    vec(bop, 1..=8).boxed()
}

fn strategy(_tier: Tier) -> BoxedStrategy<CorruptCase> {
    (base_strategy(), vec(corr_strategy(target_strategy_unvalidated()), 1..=3), mut_script_strategy())
        .prop_map(|(base, corrs, script)| CorruptCase { base, corrs, script, raw_hex: None })
        .boxed()
}

pub fn mutate_check(bytes: &[u8], script: &[BOp], rep: &mut CaseReport) -> Result<(bool, u64), Fail> {
    let mut io = Io::from_bytes(bytes.to_vec());
    // damaged tables can send writes far away; keep the "disk" small
    io.cap = bytes.len() + (4 << 20);
    // a quarter of the inputs live on a fixed-size backend (as `Cursor<&mut [u8]>` is): room
    // for a few hundred more bytes, then write() returns Ok(0) - never an endless loop
    let fixed = fnv64(bytes) % 4 == 0;
    if fixed {
        // half of them with no room at all beyond the current length
        let slack = if (fnv64(bytes) >> 4) % 2 == 0 { 0 } else { (fnv64(bytes) >> 8) as usize % 3000 };
        io.cap = crate::backend::FIXED_BIT | (bytes.len() + slack);
        rep.classes.push("fixed_size_backend".into());
    }
    let opened = guard("open", || open_options(None, false).open_with(io))?;
    let mut c = match opened {
        Ok(c) => c,
        Err(_) => return Ok((false, 0)),
    };
    let mut st = BlindStats::default();
    let mut trace = Vec::new();
    if let Err(f) = run_blind(&mut c, script, &mut st, &mut trace) {
        rep.trace = trace;
        return Err(f);
    }
    // dropping the object and its handles must not panic either
    guard("drop", move || drop(c))?;
    // handles that outlive their CompoundFile, used for reading and writing
    if let Err(f) = orphaned_handles(bytes, false, true, &mut st, &mut trace) {
        rep.trace = trace;
        return Err(f);
    }
    Ok((true, st.mutating_calls))
}

fn report(c: &CorruptCase) -> CaseReport {
    let mut rep = CaseReport { evaluations: 1, ..CaseReport::default() };
    let (bytes, applied, desc, kinds) = match damaged_input(c) {
        Ok(x) => x,
        Err(f) => {
            if f.key.starts_with("harness|") {
                rep.fail = Some(f);
            } else {
                rep.excluded = 1;
            }
            return rep;
        }
    };
    match mutate_check(&bytes, &c.script, &mut rep) {
        Ok((accepted, mutating)) => {
            if !accepted {
                rep.classes.push("rejected_at_open".into());
                return rep;
            }
            rep.classes.push("accepted".into());
            rep.classes.extend(kinds.iter().map(|k| format!("{}_accepted", k)));
            let inconsistent = refparse::check(&bytes).len() > 0;
            if inconsistent {
                rep.classes.push("accepted_inconsistent".into());
            }
            rep.nontrivial = applied > 0 && inconsistent && mutating > 0;
        }
        Err(mut f) => {
            f.detail = format!("{} [corruptions: {:?}; input {} bytes]", f.detail, desc, bytes.len());
            rep.fail = Some(f);
        }
    }
    rep
}

fn worker(ctx: &Ctx) -> WorkerResult {
    run_worker(ctx, strategy(ctx.tier), report)
}

fn solo(v: &Value) -> Result<CaseReport, String> {
    run_solo(v, report)
}

fn fuzz_extra(ctx: &Ctx, ev: &mut Value) -> Option<Violation> {
    crate::fuzzrun::campaign(ctx, ev, "C11", "fz_mutate", true, solo)
}

pub fn def() -> PropDef {
    PropDef {
        id: "C11",
        level: "exploration",
        rule: "input = valid image (synthesized or library-written, V3/V4) x 1-3 corruptions restricted to fields that permissive open does not validate (start sector and size of streams and of the root, FAT cells inside mini-stream/data chains and free cells, MiniFAT cells, tail->head cycles of data, mini-stream and mini chains), kept only if permissive open accepts (rate in classes); then a mutation history of 1-8 ops chosen from what the library itself lists: handle scripts with write/write_all/set_len(+-)/seek/read/flush on listed streams, create stream/storage under listed storages, remove stream/storage/recursive, setters, flush, drop, iterators kept alive around handle writes; finally handles on up to six listed streams are used (read, seek, write, set_len, flush) after their CompoundFile has been dropped. A quarter of the inputs run on a fixed-size backend (write returns Ok(0) at the end of the space). Oracle: every call returns Ok or Err, no panic (index, overflow, assertion, unwrap), no self-deadlocking lock request (always-on lock observer), worker CPU budget 20 CPU-s per case confirmed alone under RLIMIT_CPU. Non-trivial = accepted input for which the independent checker reports >=1 violated rule and >=1 mutating call reached the library; distinct = distinct case JSON. Thorough tier adds a libFuzzer campaign on the same oracle.",
        assumptions: &["checked build: debug assertions and overflow checks on (profile 'checked'); thorough also runs the release-semantics build"],
        quick_cases: 6000,
        thorough_cases: 150000,
        worker,
        solo,
        hang_cpu_s: 20.0,
        extra: Some(fuzz_extra),
        confirm_known: false,
    }
}

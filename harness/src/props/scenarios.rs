//! Deterministic scenarios that reach states random generation does not: long monotone
//! sibling chains, and files big enough for the 110th and 237th FAT sector (first and
//! second DIFAT sector in version 3).  Each is judged by the same oracles as the generated
//! histories (model, reopen in both modes, independent checker).

use crate::engine::*;
use crate::model::*;
use crate::ops::*;
use crate::refparse;
use crate::run::{run_case, run_checker};
use crate::runner::Violation;
use crate::synth::*;
use crate::util::*;
use serde_json::Value;

fn raw(s: String) -> PathSpec {
    PathSpec::Raw(s)
}

/// N siblings created in ascending / descending CFB order (the unbalanced sibling tree
/// degenerates into a list of depth N), then lookups of each, removals and re-creations.
pub fn monotone_siblings() -> Result<u64, Violation> {
    let mut count = 0;
    for &version in &[3u8, 4u8] {
        for &descending in &[false, true] {
            for &n in &[70usize, 140] {
                let mut idx: Vec<usize> = (0..n).collect();
                if descending {
                    idx.reverse();
                }
                let name = |i: usize| format!("/deep/s{:04}", i);
                let mut ops = vec![Op::CreateStorage { p: raw("/deep".into()) }];
                for &i in idx.iter() {
                    if i % 5 == 4 {
                        ops.push(Op::CreateStorage { p: raw(name(i)) });
                    } else {
                        ops.push(Op::CreateStream { p: raw(name(i)), data: DataSpec { len: (i as u32 * 13) % 200, seed: i as u8 } });
                    }
                }
                ops.push(Op::List { p: raw("/deep".into()) });
                for i in 0..n {
                    ops.push(Op::Exists { p: raw(name(i).to_uppercase().replace("/DEEP", "/deep")) });
                    if i % 7 == 0 {
                        ops.push(Op::Entry { p: raw(name(i)) });
                    }
                }
                ops.push(Op::Reopen { strict: true });
                for i in (0..n).step_by(3) {
                    if i % 5 == 4 {
                        ops.push(Op::RemoveStorage { p: raw(name(i)) });
                    } else {
                        ops.push(Op::RemoveStream { p: raw(name(i)) });
                    }
                }
                ops.push(Op::Walk);
                for i in (0..n).step_by(6) {
                    ops.push(Op::CreateNewStream { p: raw(name(i)), data: DataSpec { len: 70, seed: 9 } });
                    ops.push(Op::ReadAll { p: raw(name(i)) });
                }
                ops.push(Op::WalkStorage { p: raw("/deep".into()) });
                let case = Case { version, max_buf: None, start: Start::Fresh, pool: vec![], ops };
                let o = Oracles { dump_every: 0, final_reopen: true, checker_every: 97, ..Oracles::default() };
                let out = run_case(&case, o, None);
                count += 1;
                if let Err(f) = out.result {
                    return Err(Violation { key: f.key, detail: format!("[monotone siblings n={} descending={} V{}] {}", n, descending, version, f.detail), case: serde_json::to_value(&case).unwrap_or(Value::Null), trace: out.trace.into_iter().rev().take(12).rev().collect() });
                }
            }
        }
    }
    Ok(count)
}

fn huge_fail(what: &str, f: Fail) -> Violation {
    Violation { key: format!("{}|huge_file", f.key), detail: format!("[{}] {}", what, f.detail), case: serde_json::json!({"scenario": what}), trace: vec![] }
}

/// A version-3 file written by the library and grown in steps past the 110th and the 237th
/// FAT sector; after each step: model comparison, checker, reopen in both modes (raw bytes).
pub fn huge_library_file() -> Result<u64, Violation> {
    let what = "library-written V3 file grown to 16.6 MB (110th and 237th FAT sector)";
    let o = Oracles { dump_every: 0, final_reopen: false, ..Oracles::default() };
    let mut eng = Engine::new(3, None, vec![], o).map_err(|f| huge_fail(what, f))?;
    // (only the engine's 'skip very large writes' rule looks at this copy of the cap)
    eng.io.cap = 512 << 20;
    let mut steps = 0;
    let mut run = |eng: &mut Engine, op: Op| -> Result<(), Violation> {
        eng.step(&op).map_err(|f| huge_fail(what, f))?;
        run_checker(eng, "huge file step").map_err(|f| huge_fail(what, f))?;
        let c1 = eng.check_reopen(false, "huge").map_err(|f| huge_fail(what, f))?;
        drop(c1);
        let c2 = eng.check_reopen(true, "huge").map_err(|f| huge_fail(what, f))?;
        drop(c2);
        Ok(())
    };
    // the backend cap of the engine's Io is shared through the Arc; raise it on the live object
    run(&mut eng, Op::CreateStream { p: raw("/small".into()), data: DataSpec { len: 300, seed: 1 } })?;
    run(&mut eng, Op::CreateStream { p: raw("/huge".into()), data: DataSpec { len: 6_900_000, seed: 2 } })?;
    for len in [7_000_000u32, 7_200_000, 7_400_000, 15_300_000, 15_500_000, 15_600_000, 16_600_000] {
        run(&mut eng, Op::SetLen { p: raw("/huge".into()), len: LenSpec::Abs(len) })?;
        steps += 1;
    }
    run(&mut eng, Op::CreateStream { p: raw("/after".into()), data: DataSpec { len: 70_000, seed: 3 } })?;
    run(&mut eng, Op::SetLen { p: raw("/huge".into()), len: LenSpec::Abs(100) })?;
    run(&mut eng, Op::CreateStream { p: raw("/again".into()), data: DataSpec { len: 9_000_000, seed: 4 } })?;
    Ok(steps + 5)
}

/// A foreign version-3 file of 15.6 MB with two DIFAT sectors (permuted placement, so the
/// DIFAT chain does not run in ascending sector order), opened and grown until new FAT
/// sectors are needed, then reopened.
pub fn huge_foreign_file() -> Result<u64, Violation> {
    let what = "foreign V3 file of 15.6 MB with two DIFAT sectors, then grown";
    let mut model = Model::new();
    model.insert(&[], Node { name: "payload".into(), state: 7, kind: Kind::Stream { data: pattern(5, 0, 15_420_000) } });
    model.insert(&[], Node { name: "mini".into(), state: 0, kind: Kind::Stream { data: pattern(6, 0, 900) } });
    model.insert(&[], Node { name: "dir".into(), state: 0, kind: Kind::Storage { children: vec![], clsid: [3; 16], created: TimeVal::Exact(1), modified: TimeVal::Exact(2) } });
    let mut done = 0;
    for choices in [vec![65535u16, 3, 40000, 12, 65000, 9, 31000, 2, 50000], vec![1u16, 60000, 7, 45000, 300, 20000]] {
        let (img, info) = synthesize(&model, 3, &choices, 0);
        if info.difat_sectors < 2 {
            return Err(huge_fail(what, Fail::new("harness|scenario", format!("synthesized image has {} DIFAT sectors", info.difat_sectors))));
        }
        if let Some((id, d)) = refparse::check(&img).first() {
            return Err(huge_fail(what, Fail::new("harness|synth_invalid", format!("{} {}", id, d))));
        }
        for strict in [false, true] {
            let o = Oracles { dump_every: 0, final_reopen: false, ..Oracles::default() };
            let mut eng = Engine::from_image(img.clone(), model.clone(), 3, None, vec![], o, strict).map_err(|f| huge_fail(what, f))?;
            eng.io.cap = 512 << 20;
            eng.check_live_dump().map_err(|f| huge_fail(what, f))?;
            for op in [
                Op::CreateStream { p: raw("/dir/grow1".into()), data: DataSpec { len: 400_000, seed: 8 } },
                Op::SetLen { p: raw("/payload".into()), len: LenSpec::Rel(600_000) },
                Op::CreateStream { p: raw("/dir/grow2".into()), data: DataSpec { len: 300_000, seed: 9 } },
                Op::RemoveStream { p: raw("/dir/grow1".into()) },
            ] {
                eng.step(&op).map_err(|f| huge_fail(what, f))?;
                run_checker(&mut eng, "huge foreign step").map_err(|f| huge_fail(what, f))?;
                let c1 = eng.check_reopen(false, "huge_foreign").map_err(|f| huge_fail(what, f))?;
                drop(c1);
                let c2 = eng.check_reopen(true, "huge_foreign").map_err(|f| huge_fail(what, f))?;
                drop(c2);
                done += 1;
            }
        }
    }
    Ok(done)
}

//! C07 - open handles stay bound to their stream and never touch other objects.

use crate::engine::{Oracles, Stats};
use crate::gen::{case_strategy, NameProfile, Profile};
use crate::ops::*;
use crate::props::hist::history_report;
use crate::runner::*;
use proptest::strategy::BoxedStrategy;
use serde_json::Value;

pub fn oracles() -> Oracles {
    Oracles { dump_every: 3, final_reopen: true, measure_shapes: true, checker_every: 4, stale_handles: true, ..Oracles::default() }
}

pub fn profile(tier: Tier) -> Profile {
    let mut p = Profile::c01();
    p.create = 28;
    p.remove = 26;
    p.query = 4;
    p.content = 8;
    p.meta = 3;
    p.reopen = 0;
    p.handles = 45;
    p.bad = 1;
    p.fancy = 1;
    p.max_size = 6000;
    p.names = NameProfile::Ascii;
    p.pool_min = 5;
    p.pool_max = 10;
    p.min_ops = 8;
    p.max_ops = if tier == Tier::Thorough { 150 } else { 70 };
    p.max_bufs = vec![None, Some(1024)];
    p
}

fn nontrivial(s: &Stats, _c: &Case) -> bool {
    s.has("handle_used_after_pred_removal") || s.has("handle_used_after_slot_reuse")
}

pub fn report(c: &Case) -> CaseReport {
    history_report(c, oracles(), nontrivial)
}

/// Focused sub-strategy: n sibling streams inserted in a random order (so the sibling tree
/// takes every shape), handles opened on some of them, then removals of the others
/// interleaved with handle operations and creations that reuse the freed slots.
fn focus_case(tier: Tier) -> BoxedStrategy<Case> {
    use crate::gen::*;
    use proptest::collection::vec;
    use proptest::prelude::*;
    let names = ["m", "d", "t", "b", "f", "p", "w", "a", "c", "e", "g", "n", "r", "v", "y"];
    let slot = 0u8..3;
    let step = prop_oneof![
        6 => pick_path(PickKind::Stream, 0).prop_map(|p| Op::RemoveStream { p }),
        3 => (slot.clone(), data_strategy(3000)).prop_map(|(slot, data)| Op::HWriteAll { slot, data }),
        2 => (slot.clone(), data_strategy(3000)).prop_map(|(slot, data)| Op::HWrite { slot, data }),
        3 => (slot.clone(), size_strategy(3000)).prop_map(|(slot, n)| Op::HRead { slot, n }),
        2 => (slot.clone(), seek_strategy()).prop_map(|(slot, s)| Op::HSeek { slot, s }),
        1 => (slot.clone(), len_spec(5000)).prop_map(|(slot, len)| Op::HSetLen { slot, len }),
        2 => slot.clone().prop_map(|slot| Op::HFlush { slot }),
        1 => slot.clone().prop_map(|slot| Op::HReadToEnd { slot }),
        3 => (new_path(0), data_strategy(5000)).prop_map(|(p, data)| Op::CreateStream { p, data }),
        2 => new_path(0).prop_map(|p| Op::CreateStorage { p }),
        1 => (pick_path(PickKind::Stream, 0), len_spec(5000)).prop_map(|(p, len)| Op::SetLen { p, len }),
        1 => Just(Op::Walk),
        3 => (any::<u8>(), any::<u8>(), data_strategy(5000)).prop_map(|(k, how, data)| Op::HStaleUse { k, how, data }),
    ];
    let n_steps = if tier == Tier::Thorough { 50 } else { 25 };
    (proptest::sample::select(vec![3u8, 4]), proptest::sample::select(vec![None, Some(1024u32)]), 4usize..=names.len(), vec(any::<u16>(), names.len()), vec(any::<u16>(), 3), vec(step, 5..=n_steps))
        .prop_map(move |(version, max_buf, n, keys, opens, steps)| {
            let mut order: Vec<usize> = (0..n).collect();
            order.sort_by_key(|&i| keys[i]);
            let mut ops = Vec::new();
            for &i in order.iter() {
                ops.push(Op::CreateStream { p: PathSpec::Raw(format!("/{}", names[i])), data: DataSpec { len: 30 + 97 * i as u32, seed: i as u8 } });
            }
            for (s, &o) in opens.iter().enumerate() {
                ops.push(Op::HOpen { slot: s as u8, p: PathSpec::Pick { kind: PickKind::Stream, idx: o, spell: Spell::default() } });
            }
            ops.extend(steps);
            Case { version, max_buf, start: Start::Fresh, pool: vec!["new1".into(), "zz".into(), "k".into(), "new22".into()], ops }
        })
        .boxed()
}

pub fn strategy(tier: Tier) -> proptest::strategy::BoxedStrategy<Case> {
    use proptest::prelude::*;
    // a share of the general histories starts on a foreign file, some with tolerated deviations
    let general = (case_strategy(&profile(tier), true), proptest::option::weighted(0.25, (any::<u64>(), proptest::collection::vec((any::<u8>(), any::<u16>()), 1..4))))
        .prop_map(|(mut c, dv)| {
            if let Some((seed, devs)) = dv {
                c.start = Start::Deviant { seed, devs };
            }
            c
        });
    prop_oneof![2 => general, 3 => focus_case(tier)].boxed()
}

fn worker(ctx: &Ctx) -> WorkerResult {
    run_worker(ctx, strategy(ctx.tier), report)
}

fn solo(v: &Value) -> Result<CaseReport, String> {
    run_solo(v, report)
}

fn concurrent(ctx: &Ctx, ev: &mut Value) -> Option<Violation> {
    let cases = if ctx.tier == Tier::Thorough { 30000 } else { 3000 };
    match crate::props::conc_mut::concurrent_mutator(ctx.seed, cases) {
        Ok((done, busy)) => {
            ev["coverage"]["concurrent_mutator_cases"] = serde_json::json!(done);
            ev["coverage"]["concurrent_mutator_cases_with_40_or_more_lock_events"] = serde_json::json!(busy);
            None
        }
        Err(v) => Some(v),
    }
}

pub fn def() -> PropDef {
    PropDef {
        id: "C07",
        level: "exploration",
        rule: "histories with up to 3 handles open on different streams interleaved with creations, removals (stream, storage, recursive), resizes and overwrites of other entries; the generator never overwrites a stream that has an open handle and never opens two handles on one stream (such draws are skipped and counted in 'excluded'); when a stream with an open handle is removed, the handle is kept and later used (read, write_all+flush, set_len, seek, write, drop) with any outcome accepted - it must change nothing that exists (no stream is created while such a handle is alive: what it refers to once its slot holds a stream again is unspecified); after every step results are compared with the model, every 3 ops the full dump of all entries, every 4 ops the independent checker on the raw image (damage to slots the API can no longer reach), at the end dump + reopen in both modes. A scenario step runs 3000 (thorough: 30000) generated two-thread cases under the deterministic scheduler of C14: one thread uses two stream handles (write/read/seek/set_len/flush) while the other calls the &mut-self API on other entries (set_state_bits on any object incl. the root and the handles' own streams, set_storage_clsid, set_modified_time, touch, create/remove/overwrite of entries without handles); every call must succeed, nothing deadlocks or panics, and afterwards the live object and the strictly reopened image equal the model with both scripts applied and the independent checker accepts the image (shrunk by proptest). Non-trivial = a handle was used (read/write/set_len) after the removal of a sibling with two children whose in-order predecessor had an open handle (measured on the byte image by the independent parser), or after a creation that followed a removal (freed slot reuse); distinct = distinct case JSON. Thorough tier: libFuzzer campaign fz_hist over byte-encoded histories (16-byte record per op) with this same runner and oracle.",
        assumptions: &["abstract model as in C01"],
        quick_cases: 2500,
        thorough_cases: 30000,
        worker,
        solo,
        hang_cpu_s: 30.0,
        extra: Some(concurrent),
        confirm_known: false,
    }
}

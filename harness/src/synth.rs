//! placeholder (synthesizer comes later)
use crate::model::Model;
use crate::util::Fail;
pub fn foreign_start(_seed: u64, _version: u8, _pool: &[String]) -> Result<(Vec<u8>, Model), Fail> {
    Err(Fail::new("harness|synth_missing", "synthesizer not built yet"))
}
pub const AVAILABLE: bool = false;

//! Corruption catalogue (DESIGN 3.6): field-level corruptions of a valid image, located
//! with the independent parser's map of the file.

use crate::ops::pick;
use crate::refparse::*;
use serde::{Deserialize, Serialize};

#[derive(Clone, Copy, Debug, PartialEq, Eq, Serialize, Deserialize)]
pub enum Target {
    /// one of the header fields (index into HEADER_FIELDS)
    Header(u8),
    DifatCell,
    /// FAT cell by role: 0 any, 1 directory chain, 2 MiniFAT chain, 3 mini-stream chain,
    /// 4 data chain head, 5 data chain middle, 6 data chain tail, 7 free, 8 FATSECT/DIFSECT
    FatCell(u8),
    /// MiniFAT cell: 0 any, 1 used head, 2 used tail, 3 free / beyond
    MiniFatCell(u8),
    /// directory entry field (index into ENTRY_FIELDS) of a chosen entry:
    /// entry class 0 any, 1 root, 2 stream, 3 storage, 4 unallocated
    Entry { class: u8, field: u8 },
    Truncate,
    Extend,
    SwapSectors,
    RawByte,
    /// make a chain cyclic: tail -> head (role as in FatCell 1..=4; 9 = mini chain)
    Cycle(u8),
    /// composite: the file is extended beyond what its FAT sectors cover and a cell that
    /// names a FAT or DIFAT sector is pointed into the uncovered tail (a sector that exists
    /// in the file but has no FAT cell). kind: 0 first unused DIFAT cell, 1 a used DIFAT
    /// cell, 2 header's first DIFAT sector (count 1; the tail sector is made to look like an
    /// empty DIFAT sector), 3 next-pointer of the last DIFAT sector, 4 first directory
    /// sector, 5 first MiniFAT sector, 6 a stream's start sector
    UncoveredRef(u8),
}

#[derive(Clone, Copy, Debug, PartialEq, Eq, Serialize, Deserialize)]
pub struct Corr {
    pub target: Target,
    pub sel: u16,
    pub val: u8,
    pub raw: u32,
}

/// (offset, size in bytes)
pub const HEADER_FIELDS: &[(usize, usize)] = &[
    (0, 8),   // signature
    (24, 2),  // minor
    (26, 2),  // major
    (28, 2),  // byte order
    (30, 2),  // sector shift
    (32, 2),  // mini shift
    (40, 4),  // num dir
    (44, 4),  // num fat
    (48, 4),  // first dir
    (52, 4),  // txn
    (56, 4),  // cutoff
    (60, 4),  // first minifat
    (64, 4),  // num minifat
    (68, 4),  // first difat
    (72, 4),  // num difat
    (76, 4),  // difat[0]
    (80, 4),  // difat[1]
    (76 + 4 * 108, 4),
];

/// (offset within entry, size)
pub const ENTRY_FIELDS: &[(usize, usize)] = &[
    (0, 2),   // first name unit
    (2, 2),   // second name unit
    (62, 2),  // last name unit
    (64, 2),  // name length
    (66, 1),  // type
    (67, 1),  // colour
    (68, 4),  // left
    (72, 4),  // right
    (76, 4),  // child
    (80, 4),  // clsid
    (96, 4),  // state
    (100, 8), // created
    (108, 8), // modified
    (116, 4), // start
    (120, 8), // size
    (120, 4), // size low
    (124, 4), // size high
];

fn special32(p: &Parsed, val: u8, cur: u32, raw: u32) -> u32 {
    let n = p.nsectors as u32;
    match val % 24 {
        0 => 0,
        1 => 1,
        2 => cur.wrapping_add(1),
        3 => cur.wrapping_sub(1),
        4 => n.wrapping_sub(1),
        5 => n,
        6 => n.wrapping_add(1),
        7 => FREESECT,
        8 => ENDOFCHAIN,
        9 => FATSECT,
        10 => DIFSECT,
        11 => 0xFFFF_FFFB,
        12 => 0xFFFF_FFFA,
        13 => 0x8000_0000,
        14 => p.dir_chain.first().copied().unwrap_or(0),
        15 => p.difat.first().copied().unwrap_or(0),
        16 => p.minifat_chain.first().copied().unwrap_or(1),
        17 => p.ministream_chain.first().copied().unwrap_or(2),
        18 => p.difat_sectors.first().copied().unwrap_or(3),
        19 => p.entries.iter().find(|e| e.typ == 2 && e.size >= 4096).map(|e| e.start).unwrap_or(4),
        20 => p.entries.len() as u32,
        21 => (p.entries.len() as u32).wrapping_sub(1),
        22 => raw % (n.max(1) + 2),
        _ => raw,
    }
}

fn special64(p: &Parsed, val: u8, cur: u64, raw: u32) -> u64 {
    let sl = p.sector_len.max(512) as u64;
    match val % 22 {
        0 => 0,
        1 => 1,
        2 => 63,
        3 => 64,
        4 => 65,
        5 => 4095,
        6 => 4096,
        7 => 4097,
        8 => cur.wrapping_add(1),
        9 => cur.wrapping_sub(1),
        10 => (cur / sl).wrapping_add(1).wrapping_mul(sl),
        11 => (cur / sl).wrapping_add(1).wrapping_mul(sl).wrapping_add(1),
        12 => (cur / sl) * sl,
        13 => u32::MAX as u64,
        14 => 1u64 << 32,
        15 => 1u64 << 63,
        16 => u64::MAX - 5,
        17 => u64::MAX,
        18 => (p.nsectors as u64 + 1).wrapping_mul(sl),
        19 => cur ^ 0x1000,
        20 => (raw as u64).wrapping_mul(64),
        _ => ((raw as u64) << 32) | cur & 0xFFFF_FFFF,
    }
}

fn fat_cell_off(p: &Parsed, i: usize) -> Option<usize> {
    let per = p.sector_len / 4;
    let fs = *p.difat.get(i / per)?;
    let o = p.sector_off(fs) + 4 * (i % per);
    Some(o)
}

fn minifat_cell_off(p: &Parsed, i: usize) -> Option<usize> {
    let per = p.sector_len / 4;
    let s = *p.minifat_chain.get(i / per)?;
    Some(p.sector_off(s) + 4 * (i % per))
}

fn put(img: &mut Vec<u8>, off: usize, bytes: &[u8]) -> bool {
    if off + bytes.len() > img.len() {
        return false;
    }
    img[off..off + bytes.len()].copy_from_slice(bytes);
    true
}

fn get32(img: &[u8], off: usize) -> u32 {
    if off + 4 > img.len() {
        return 0;
    }
    u32::from_le_bytes([img[off], img[off + 1], img[off + 2], img[off + 3]])
}

fn get64(img: &[u8], off: usize) -> u64 {
    if off + 8 > img.len() {
        return 0;
    }
    let mut a = [0u8; 8];
    a.copy_from_slice(&img[off..off + 8]);
    u64::from_le_bytes(a)
}

/// Data chains (start sectors of streams >= 4096).
fn data_chains(p: &Parsed) -> Vec<Vec<u32>> {
    p.entries.iter().filter(|e| e.typ == 2 && e.size >= 4096).map(|e| p.chain(e.start).0).filter(|c| !c.is_empty()).collect()
}

/// Applies one corruption. Returns a short description, or None if not applicable.
pub fn apply(img: &mut Vec<u8>, p: &Parsed, c: &Corr) -> Option<String> {
    // offsets come from the parse of the undamaged image: they are only valid while the
    // image still has its original length
    let intact_len = p.sector_len > 0 && img.len() == (p.nsectors + 1) * p.sector_len;
    if !intact_len && !matches!(c.target, Target::Truncate | Target::Extend | Target::RawByte) {
        return None;
    }
    match c.target {
        Target::Header(i) => {
            let (off, size) = HEADER_FIELDS[i as usize % HEADER_FIELDS.len()];
            match size {
                2 => {
                    let cur = u16::from_le_bytes([img[off], img[off + 1]]);
                    let v = [0u16, 1, 3, 4, 9, 12, 6, 0xFFFE, 0xFEFF, cur.wrapping_add(1), c.raw as u16][c.val as usize % 11];
                    put(img, off, &v.to_le_bytes());
                    Some(format!("header+{} = {:#x}", off, v))
                }
                4 => {
                    let v = special32(p, c.val, get32(img, off), c.raw);
                    put(img, off, &v.to_le_bytes());
                    Some(format!("header+{} = {:#x}", off, v))
                }
                _ => {
                    img[off + (c.sel as usize % size)] ^= 1 << (c.val % 8);
                    Some(format!("header+{} bit flip", off))
                }
            }
        }
        Target::DifatCell => {
            // header cells and DIFAT sector cells
            let per = p.sector_len / 4;
            let mut offs: Vec<usize> = (0..109).map(|i| 76 + 4 * i).collect();
            for &s in p.difat_sectors.iter() {
                for i in 0..per {
                    offs.push(p.sector_off(s) + 4 * i);
                }
            }
            // prefer used cells and the first unused one
            let used = p.difat.len().min(offs.len().saturating_sub(1));
            let idx = match c.sel % 4 {
                0 => pick(c.raw as u16, used.max(1)),
                1 => used,
                2 => used.saturating_sub(1),
                _ => pick(c.sel, offs.len()),
            };
            let off = offs[idx.min(offs.len() - 1)];
            let v = special32(p, c.val, get32(img, off), c.raw);
            if put(img, off, &v.to_le_bytes()) {
                Some(format!("DIFAT cell {} = {:#x}", idx, v))
            } else {
                None
            }
        }
        Target::FatCell(role) => {
            let cells: Vec<u32> = match role % 9 {
                1 => p.dir_chain.clone(),
                2 => p.minifat_chain.clone(),
                3 => p.ministream_chain.clone(),
                4 => data_chains(p).iter().map(|c| c[0]).collect(),
                5 => data_chains(p).iter().flat_map(|c| c.iter().skip(1).take(c.len().saturating_sub(2)).copied().collect::<Vec<_>>()).collect(),
                6 => data_chains(p).iter().map(|c| *c.last().unwrap()).collect(),
                7 => (0..p.fat.len() as u32).filter(|&i| p.fat[i as usize] == FREESECT).collect(),
                8 => p.difat.iter().chain(p.difat_sectors.iter()).copied().collect(),
                _ => (0..p.fat.len() as u32).collect(),
            };
            if cells.is_empty() {
                return None;
            }
            let i = cells[pick(c.sel, cells.len())] as usize;
            let off = fat_cell_off(p, i)?;
            let v = special32(p, c.val, get32(img, off), c.raw);
            if put(img, off, &v.to_le_bytes()) {
                Some(format!("FAT[{}] (role {}) = {:#x}", i, role % 9, v))
            } else {
                None
            }
        }
        Target::MiniFatCell(role) => {
            if p.minifat.is_empty() {
                return None;
            }
            let used_heads: Vec<u32> = p.entries.iter().filter(|e| e.typ == 2 && e.size > 0 && e.size < 4096).map(|e| e.start).filter(|&s| (s as usize) < p.minifat.len()).collect();
            let cells: Vec<u32> = match role % 4 {
                1 => used_heads.clone(),
                2 => used_heads.iter().filter_map(|&h| p.mini_chain(h).0.last().copied()).collect(),
                3 => (0..p.minifat.len() as u32).filter(|&i| p.minifat[i as usize] == FREESECT).collect(),
                _ => (0..p.minifat.len() as u32).collect(),
            };
            if cells.is_empty() {
                return None;
            }
            let i = cells[pick(c.sel, cells.len())] as usize;
            let off = minifat_cell_off(p, i)?;
            let cur = get32(img, off);
            let mut v = special32(p, c.val, cur, c.raw);
            if c.val % 3 == 0 {
                v = c.raw % (p.minifat.len() as u32 + 2);
            }
            if put(img, off, &v.to_le_bytes()) {
                Some(format!("MiniFAT[{}] = {:#x}", i, v))
            } else {
                None
            }
        }
        Target::Entry { class, field } => {
            let ids: Vec<usize> = p
                .entries
                .iter()
                .enumerate()
                .filter(|(i, e)| match class % 5 {
                    1 => *i == 0,
                    2 => e.typ == 2,
                    3 => e.typ == 1,
                    4 => e.typ == 0,
                    _ => true,
                })
                .map(|(i, _)| i)
                .collect();
            if ids.is_empty() {
                return None;
            }
            let id = ids[pick(c.sel, ids.len())];
            let (fo, size) = ENTRY_FIELDS[field as usize % ENTRY_FIELDS.len()];
            let off = p.entry_offsets[id] + fo;
            match size {
                1 => {
                    let v = [0u8, 1, 2, 5, 3, 4, 0xff, c.raw as u8][c.val as usize % 8];
                    put(img, off, &[v]);
                    Some(format!("entry {} +{} = {}", id, fo, v))
                }
                2 => {
                    let cur = u16::from_le_bytes([img[off], img[off + 1]]);
                    let v = [0u16, 2, 4, 62, 64, 65, 66, 0xFFFF, 0xD800, 0xDC00, b'/' as u16, b'!' as u16, cur.wrapping_add(2), cur ^ 0x20, c.raw as u16][c.val as usize % 15];
                    put(img, off, &v.to_le_bytes());
                    Some(format!("entry {} +{} = {:#x}", id, fo, v))
                }
                4 => {
                    let cur = get32(img, off);
                    let mut v = special32(p, c.val, cur, c.raw);
                    if fo == 68 || fo == 72 || fo == 76 {
                        // links: also other entries' ids and self
                        v = match c.val % 8 {
                            0 => id as u32,
                            1 => 0,
                            2 => NOSTREAM,
                            3 => c.raw % (p.entries.len() as u32 + 2),
                            _ => v,
                        };
                    }
                    if fo == 116 && c.val % 4 == 0 {
                        // start sector: somebody else's chain head
                        let heads: Vec<u32> = p.entries.iter().filter(|e| e.typ == 2 || e.typ == 5).map(|e| e.start).collect();
                        if !heads.is_empty() {
                            v = heads[pick(c.raw as u16, heads.len())];
                        }
                    }
                    put(img, off, &v.to_le_bytes());
                    Some(format!("entry {} +{} = {:#x}", id, fo, v))
                }
                _ => {
                    let v = special64(p, c.val, get64(img, off), c.raw);
                    put(img, off, &v.to_le_bytes());
                    Some(format!("entry {} +{} = {:#x}", id, fo, v))
                }
            }
        }
        Target::Truncate => {
            let sl = p.sector_len.max(512);
            let n = img.len();
            let to = match c.val % 8 {
                0 => 0,
                1 => 511,
                2 => 512,
                3 => sl.min(n),
                4 => n.saturating_sub(1),
                5 => n.saturating_sub(sl / 2),
                6 => n.saturating_sub(sl),
                _ => (c.raw as usize) % (n + 1),
            };
            img.truncate(to);
            Some(format!("truncate to {}", to))
        }
        Target::Extend => {
            let extra = match c.val % 7 {
                // beyond what the FAT sectors cover
                5 => (p.fat.len().saturating_sub(p.nsectors) + 1 + (c.raw as usize % 3)) * p.sector_len.max(512),
                6 => (p.fat.len().saturating_sub(p.nsectors) + 1) * p.sector_len.max(512) + 100,
                0 => 1,
                1 => p.sector_len.max(512) / 2,
                2 => p.sector_len.max(512),
                3 => 3 * p.sector_len.max(512) + 17,
                _ => (c.raw as usize) % 20_000,
            };
            let fill = [0u8, 0xff, 0xfe, 0x41][c.sel as usize % 4];
            let len = img.len();
            img.resize(len + extra, fill);
            Some(format!("extend by {} x {:#x}", extra, fill))
        }
        Target::UncoveredRef(kind) => {
            let sl = p.sector_len.max(512);
            // sectors [covered, covered + extra) exist in the file and have no FAT cell
            let covered = p.fat.len().max(p.nsectors);
            let extra = 1 + (c.raw as usize % 3);
            let want_len = (covered + extra + 1) * sl;
            if img.len() >= want_len || want_len > 3_000_000 {
                return None;
            }
            let fill = [0u8, 0xff, 0xfe, 0x41][c.sel as usize % 4];
            img.resize(want_len, fill);
            let target = (covered + (c.val as usize % extra)) as u32;
            let per = sl / 4;
            let what = match kind % 7 {
                0 | 1 => {
                    let mut offs: Vec<usize> = (0..109).map(|i| 76 + 4 * i).collect();
                    for &s in p.difat_sectors.iter() {
                        for i in 0..per - 1 {
                            offs.push(p.sector_off(s) + 4 * i);
                        }
                    }
                    let used = p.difat.len().min(offs.len() - 1);
                    let idx = if kind % 7 == 0 { used } else { pick(c.sel, used.max(1)) };
                    put(img, offs[idx], &target.to_le_bytes());
                    format!("DIFAT cell {}", idx)
                }
                2 => {
                    if !p.difat_sectors.is_empty() {
                        return None;
                    }
                    // the tail sector as an empty DIFAT sector: all FREE, next = ENDOFCHAIN
                    let off = p.sector_off(target);
                    for i in 0..per - 1 {
                        put(img, off + 4 * i, &FREESECT.to_le_bytes());
                    }
                    put(img, off + 4 * (per - 1), &ENDOFCHAIN.to_le_bytes());
                    put(img, 68, &target.to_le_bytes());
                    put(img, 72, &1u32.to_le_bytes());
                    "header first DIFAT sector".to_string()
                }
                3 => {
                    let last = *p.difat_sectors.last()?;
                    let off = p.sector_off(target);
                    for i in 0..per - 1 {
                        put(img, off + 4 * i, &FREESECT.to_le_bytes());
                    }
                    put(img, off + 4 * (per - 1), &ENDOFCHAIN.to_le_bytes());
                    put(img, p.sector_off(last) + 4 * (per - 1), &target.to_le_bytes());
                    let n = get32(img, 72).wrapping_add(1);
                    put(img, 72, &n.to_le_bytes());
                    "DIFAT chain link".to_string()
                }
                4 => {
                    put(img, 48, &target.to_le_bytes());
                    "first directory sector".to_string()
                }
                5 => {
                    put(img, 60, &target.to_le_bytes());
                    "first MiniFAT sector".to_string()
                }
                _ => {
                    let streams: Vec<usize> = p.entries.iter().enumerate().filter(|(_, e)| e.typ == 2 || e.typ == 5).map(|(i, _)| i).collect();
                    if streams.is_empty() {
                        return None;
                    }
                    let i = streams[pick(c.sel, streams.len())];
                    let off = *p.entry_offsets.get(i)?;
                    put(img, off + 116, &target.to_le_bytes());
                    format!("start sector of entry {}", i)
                }
            };
            Some(format!("file extended to {} sectors ({} covered), {} = uncovered sector {}", covered + extra, covered, what, target))
        }
        Target::SwapSectors => {
            let sl = p.sector_len.max(512);
            let n = img.len() / sl;
            if n < 3 {
                return None;
            }
            let a = 1 + pick(c.sel, n - 1);
            let b = 1 + (c.raw as usize) % (n - 1);
            if a == b {
                return None;
            }
            for i in 0..sl {
                img.swap(a * sl + i, b * sl + i);
            }
            Some(format!("swap sectors {} and {}", a - 1, b - 1))
        }
        Target::RawByte => {
            if img.is_empty() {
                return None;
            }
            let off = ((c.sel as usize) << 16 | c.raw as usize & 0xffff) % img.len();
            img[off] = c.val;
            Some(format!("byte {} = {:#x}", off, c.val))
        }
        Target::Cycle(role) => {
            if role % 10 == 9 {
                let heads: Vec<u32> = p.entries.iter().filter(|e| e.typ == 2 && e.size > 0 && e.size < 4096).map(|e| e.start).collect();
                if heads.is_empty() {
                    return None;
                }
                let h = heads[pick(c.sel, heads.len())];
                let ch = p.mini_chain(h).0;
                let tail = *ch.last()?;
                let off = minifat_cell_off(p, tail as usize)?;
                put(img, off, &h.to_le_bytes());
                return Some(format!("mini chain {} tail -> head", h));
            }
            if role % 10 == 8 {
                // a regular stream whose chain is cyclic *and* whose size claims far more than
                // the chain holds: position arithmetic far beyond the real data
                let streams: Vec<usize> = p.entries.iter().enumerate().filter(|(_, e)| e.typ == 2 && e.size >= 4096).map(|(i, _)| i).collect();
                if streams.is_empty() {
                    return None;
                }
                let i = streams[pick(c.sel, streams.len())];
                let ch = p.chain(p.entries[i].start).0;
                let tail = *ch.last()?;
                let off = fat_cell_off(p, tail as usize)?;
                put(img, off, &ch[0].to_le_bytes());
                let size: u64 = [1u64 << 40, 1u64 << 62, i64::MAX as u64, (1u64 << 32) + 5, 1u64 << 31][c.val as usize % 5];
                let eoff = p.entry_offsets[i] + 120;
                put(img, eoff, &size.to_le_bytes());
                return Some(format!("stream entry {}: chain {} tail -> head and size = {:#x}", i, ch[0], size));
            }
            if role % 10 == 5 {
                // DIFAT chain: the last DIFAT sector's next cell -> some DIFAT sector
                let last = *p.difat_sectors.last()?;
                let to = p.difat_sectors[pick(c.sel, p.difat_sectors.len())];
                let off = p.sector_off(last) + p.sector_len - 4;
                put(img, off, &to.to_le_bytes());
                return Some(format!("DIFAT chain tail {} -> {}", last, to));
            }
            let chains: Vec<Vec<u32>> = match role % 5 {
                1 => vec![p.dir_chain.clone()],
                2 => vec![p.minifat_chain.clone()],
                3 => vec![p.ministream_chain.clone()],
                _ => data_chains(p),
            };
            let chains: Vec<Vec<u32>> = chains.into_iter().filter(|c| !c.is_empty()).collect();
            if chains.is_empty() {
                return None;
            }
            let ch = &chains[pick(c.sel, chains.len())];
            let off = fat_cell_off(p, *ch.last().unwrap() as usize)?;
            put(img, off, &ch[0].to_le_bytes());
            Some(format!("chain {} tail -> head", ch[0]))
        }
    }
}

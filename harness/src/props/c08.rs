//! C08 - bytes gained by growing a stream read as zero, whatever was there before.

use crate::engine::{Oracles, Stats};
use crate::gen::*;
use crate::ops::*;
use crate::props::hist::history_report;
use crate::runner::*;
use proptest::collection::vec;
use proptest::prelude::*;
use serde_json::Value;

pub fn oracles() -> Oracles {
    Oracles { grow_check: true, shadow_nonzero: true, dump_every: 4, final_reopen: true, ..Oracles::default() }
}

fn op_strategy(max: u32) -> BoxedStrategy<Op> {
    let rel = proptest::sample::select(vec![-4097i32, -4096, -4033, -600, -513, -512, -500, -108, -65, -64, -63, -10, -1, 1, 10, 63, 64, 65, 108, 500, 512, 513, 600, 4033, 4096, 4097]);
    prop_oneof![
        5 => (new_path(0), data_strategy(max)).prop_map(|(p, data)| Op::CreateStream { p, data }),
        8 => (pick_path(PickKind::Stream, 0), rel).prop_map(|(p, d)| Op::SetLen { p, len: LenSpec::Rel(d) }),
        4 => (pick_path(PickKind::Stream, 0), size_strategy(max)).prop_map(|(p, l)| Op::SetLen { p, len: LenSpec::Abs(l) }),
        3 => pick_path(PickKind::Stream, 0).prop_map(|p| Op::RemoveStream { p }),
        2 => (pick_path(PickKind::Stream, 0), any::<u16>(), data_strategy(max)).prop_map(|(p, frac, data)| Op::Overwrite { p, frac, data }),
        1 => new_path(0).prop_map(|p| Op::CreateStorage { p }),
        1 => pick_path(PickKind::Storage, 0).prop_map(|p| Op::RemoveStorageAll { p }),
        2 => (0u8..2, len_spec(max)).prop_map(|(slot, len)| Op::HSetLen { slot, len }),
        1 => (0u8..2, data_strategy(2000)).prop_map(|(slot, data)| Op::HWriteAll { slot, data }),
        1 => (0u8..2).prop_map(|slot| Op::HClose { slot }),
        1 => any::<bool>().prop_map(|strict| Op::Reopen { strict }),
    ]
    .boxed()
}

pub fn strategy(tier: Tier) -> BoxedStrategy<Case> {
    let max = 9000;
    let n = if tier == Tier::Thorough { 120 } else { 45 };
    // a quarter of the histories start on a foreign-layout file: the unused rest of a stream's
    // last (mini) sector and free sectors hold non-zero bytes there, which is legal
    let start = prop_oneof![3 => Just(Start::Fresh), 1 => any::<u64>().prop_map(|seed| Start::Foreign { seed })];
    (proptest::sample::select(vec![3u8, 4]), proptest::sample::select(vec![None, Some(1024u32)]), pool_strategy(NameProfile::Ascii, 3, 6), vec(op_strategy(max), 3..=n), start)
        .prop_map(|(version, max_buf, pool, ops, start)| Case { version, max_buf, start, pool, ops })
        .boxed()
}

fn nontrivial(s: &Stats, _c: &Case) -> bool {
    s.has("grow_over_stale")
}

pub fn report(c: &Case) -> CaseReport {
    history_report(c, oracles(), nontrivial)
}

fn worker(ctx: &Ctx) -> WorkerResult {
    run_worker(ctx, strategy(ctx.tier), report)
}

fn solo(v: &Value) -> Result<CaseReport, String> {
    run_solo(v, report)
}

fn garbage_tail(_ctx: &Ctx, ev: &mut Value) -> Option<Violation> {
    match crate::props::scenarios::trailing_garbage_growth() {
        Ok(n) => {
            ev["coverage"]["trailing_garbage_scenario_steps"] = serde_json::json!(n);
            None
        }
        Err(v) => Some(v),
    }
}

pub fn def() -> PropDef {
    PropDef {
        id: "C08",
        level: "exploration",
        rule: "histories (3/4 on a fresh file, 1/4 on a synthesized foreign-layout file whose sector slack and free sectors hold non-zero bytes) of create (non-zero pattern), set_len by relative amounts around 64/512/4096 multiples and within one sector, absolute resizes, removals, overwrites, set_len through open handles, reopen; after each growing set_len the gained range is read through the same handle (handle variant), a fresh handle and after reopening the raw bytes and must be all zero; dumps every 4 ops show that no other stream changed. Non-trivial = the gained range, mapped to file offsets by the independent parser, overlaps bytes that were non-zero at some earlier step (shadow 'ever non-zero' bitmap of the file); distinct = distinct case JSON.",
        assumptions: &["growth through write() is covered by C06; this check covers set_len growth"],
        quick_cases: 2500,
        thorough_cases: 30000,
        worker,
        solo,
        hang_cpu_s: 30.0,
        extra: Some(garbage_tail),
        confirm_known: false,
    }
}

//! C03 - every produced image is well-formed by the independent checker.

use crate::engine::{Oracles, Stats};
use crate::gen::*;
use crate::ops::*;
use crate::props::hist::history_report;
use crate::runner::*;
use proptest::collection::vec;
use proptest::prelude::*;
use serde_json::Value;

pub fn oracles(every: usize) -> Oracles {
    Oracles { checker_every: every, track_tables: true, final_reopen: true, ..Oracles::default() }
}

/// Large-file profile: big streams (several FAT sectors, DIFAT sectors in V3), many small
/// streams (several MiniFAT and directory sectors), churn.
fn large_case(tier: Tier) -> BoxedStrategy<Case> {
    let big = if tier == Tier::Thorough { 9_000_000u32 } else { 1_200_000u32 };
    let big_size = prop_oneof![6 => 60_000u32..200_000, 4 => 200_000u32..big, 2 => Just(65_536u32), 2 => Just(65_024u32), 1 => 7_150_000u32..7_400_000];
    let many = prop_oneof![
        6 => (new_path(0), data_strategy(600)).prop_map(|(p, data)| Op::CreateStream { p, data }),
        2 => (new_path(0), big_size.clone(), any::<u8>()).prop_map(|(p, len, seed)| Op::CreateStream { p, data: DataSpec { len, seed } }),
        3 => pick_path(PickKind::Stream, 0).prop_map(|p| Op::RemoveStream { p }),
        2 => (pick_path(PickKind::Stream, 0), len_spec(12288)).prop_map(|(p, len)| Op::SetLen { p, len }),
        1 => (pick_path(PickKind::Stream, 0), big_size).prop_map(|(p, len)| Op::SetLen { p, len: LenSpec::Abs(len) }),
        2 => new_path(0).prop_map(|p| Op::CreateStorage { p }),
        1 => pick_path(PickKind::Storage, 0).prop_map(|p| Op::RemoveStorageAll { p }),
        1 => any::<bool>().prop_map(|strict| Op::Reopen { strict }),
    ];
    // a pool of many distinct short names so that hundreds of entries can coexist
    let pool = Just((0..400).map(|i| format!("n{:03}", i)).collect::<Vec<String>>());
    (proptest::sample::select(vec![3u8, 3, 4]), pool, vec(many, 20..=if tier == Tier::Thorough { 400 } else { 160 }))
        .prop_map(|(version, pool, ops)| Case { version, max_buf: None, start: Start::Fresh, pool, ops })
        .boxed()
}

fn is_large(c: &Case) -> bool {
    c.pool.len() >= 400
}

fn nontrivial(s: &Stats, _c: &Case) -> bool {
    s.has("multi_table_image") && s.has("freed_then_allocated")
}

pub fn report(c: &Case) -> CaseReport {
    let every = if is_large(c) { 8 } else { 1 };
    let out = crate::run::run_case(c, oracles(every), None);
    // classify the final image with the parser: several FAT / DIFAT / dir / MiniFAT sectors
    let mut rep = history_report_from(c, out);
    rep
}

fn history_report_from(c: &Case, out: crate::run::Outcome) -> CaseReport {
    let s = &out.stats;
    let mut classes: Vec<String> = s.classes.keys().cloned().collect();
    classes.push(format!("version_{}", c.version));
    if is_large(c) {
        classes.push("large_profile".into());
    }
    let nt = out.result.is_ok() && s.has("multi_table_image") && s.has("freed_then_allocated");
    CaseReport { fail: out.result.err(), nontrivial: nt, classes, excluded: s.excluded, evaluations: 1, nontrivial_items: vec![], trace: out.trace }
}

pub fn strategy(tier: Tier) -> BoxedStrategy<Case> {
    let p = crate::props::c02::profile(tier);
    let large_w = if tier == Tier::Thorough { 2 } else { 1 };
    prop_oneof![
        12 => case_strategy(&p, crate::synth::AVAILABLE),
        large_w => large_case(tier),
    ]
    .boxed()
}

fn worker(ctx: &Ctx) -> WorkerResult {
    run_worker(ctx, strategy(ctx.tier), report)
}

fn solo(v: &Value) -> Result<CaseReport, String> {
    run_solo(v, report)
}

/// Validation of the oracle itself (DESIGN 3.3): negative images, one per rule family,
/// built from a synthesized valid image; the checker must accept the base image and report
/// exactly the expected rule for each damaged one. A failure is a harness error (exit 2).
fn checker_selftest(_ctx: &Ctx, ev: &mut Value) -> Option<Violation> {
    use crate::props::c16::{apply_dev, Dev};
    use crate::refparse::{self, ENDOFCHAIN, FREESECT};
    use crate::synth::*;
    let pool: Vec<String> = ["alpha", "Beta", "c", "dd", "eee", "Ffff", "g", "hh", "big", "mini"].iter().map(|s| s.to_string()).collect();
    let mut items = Vec::new();
    for i in 0..9u16 {
        let kind = if i % 4 == 3 { ItemKind::Storage { clsid: [i as u8; 16], created: 5, modified: 6 } } else { ItemKind::Stream { data: crate::ops::DataSpec { len: [100u32, 5000, 64, 9000, 300, 4096, 1, 2000, 700][i as usize], seed: i as u8 } } };
        items.push(Item { parent: 0, name: i * 6553 + 100, state: 0, kind });
    }
    let spec = TreeSpec { root_clsid: [0; 16], root_state: 0, root_created: 0, root_modified: 0, items };
    let model = build_model(&spec, &pool);
    let mut problems: Vec<String> = Vec::new();
    let mut checked = 0;
    for version in [3u8, 4u8] {
        let (base, _) = synthesize(&model, version, &[7, 9000, 40000, 123, 60000, 2, 31000], 0);
        let parsed = match refparse::parse(&base) {
            Ok(p) => p,
            Err(e) => {
                problems.push(format!("base image V{} does not parse: {}", version, e));
                continue;
            }
        };
        if !parsed.rules.is_empty() {
            problems.push(format!("base image V{} is rejected: {:?}", version, parsed.rules));
            continue;
        }
        let devs: Vec<(Dev, &str)> = vec![
            (Dev::RedRed, "R28-red-red"),
            (Dev::StreamClsid, "R29-stream-clsid"),
            (Dev::StreamCreated, "R29-stream-times"),
            (Dev::NumFatPlus, "R06-num-fat"),
            (Dev::NumMinifatOff, "R08-num-minifat"),
            (Dev::FatSectorUnmarkedEnd, "R12-fatsect-mark"),
            (Dev::UnterminatedName, "R27-name-terminator"),
            (Dev::ZeroPadFat, "R13-fat-beyond-eof"),
        ];
        for (d, rule) in devs {
            let mut img = base.clone();
            if !apply_dev(&mut img, &parsed, d, 1) {
                problems.push(format!("V{}: deviation {:?} not applicable to the self-test image", version, d));
                continue;
            }
            let ids: Vec<String> = refparse::check(&img).into_iter().map(|r| r.0).collect();
            checked += 1;
            if !ids.iter().any(|r| r == rule) {
                problems.push(format!("V{}: {:?} should violate {} but the checker reports {:?}", version, d, rule, ids));
            }
        }
        // hand-made damage for the remaining rule families
        let put32 = |img: &mut Vec<u8>, off: usize, v: u32| img[off..off + 4].copy_from_slice(&v.to_le_bytes());
        let per = parsed.sector_len / 4;
        let fat_off = |i: usize| parsed.sector_off(parsed.difat[i / per]) + 4 * (i % per);
        let mut cases: Vec<(&str, Vec<u8>)> = Vec::new();
        {
            let mut img = base.clone();
            let l = img.len();
            img.truncate(l - parsed.sector_len / 2);
            cases.push(("R14-file-length", img));
        }
        if version == 3 {
            let mut img = base.clone();
            put32(&mut img, 40, 1);
            cases.push(("R05-num-dir", img));
        }
        if let Some(free) = (0..parsed.nsectors).find(|&i| parsed.fat[i] == FREESECT) {
            let mut img = base.clone();
            put32(&mut img, fat_off(free), ENDOFCHAIN);
            cases.push(("R19-orphan-sector", img));
        }
        let bigs: Vec<usize> = parsed.entries.iter().enumerate().filter(|(_, e)| e.typ == 2 && e.size >= 4096).map(|(i, _)| i).collect();
        if bigs.len() >= 2 {
            let mut img = base.clone();
            let other = parsed.entries[bigs[1]].start;
            put32(&mut img, parsed.entry_offsets[bigs[0]] + 116, other);
            cases.push(("R16-cross-link", img));
            let mut img = base.clone();
            let off = parsed.entry_offsets[bigs[0]] + 120;
            let size = parsed.entries[bigs[0]].size + parsed.sector_len as u64;
            img[off..off + 8].copy_from_slice(&size.to_le_bytes());
            cases.push(("R20-chain-length", img));
        }
        if let Some(un) = parsed.entries.iter().position(|e| e.typ == 0) {
            let mut img = base.clone();
            img[parsed.entry_offsets[un] + 64] = 2;
            cases.push(("R31-unallocated-entry-not-blank", img));
        }
        if let Some((i, e)) = parsed.entries.iter().enumerate().find(|(i, e)| *i > 0 && e.typ != 0 && e.left != refparse::NOSTREAM && e.right != refparse::NOSTREAM) {
            let mut img = base.clone();
            put32(&mut img, parsed.entry_offsets[i] + 68, e.right);
            put32(&mut img, parsed.entry_offsets[i] + 72, e.left);
            cases.push(("R26-bst-order", img));
        }
        if let Some((i, _)) = parsed.entries.iter().enumerate().find(|(_, e)| e.typ == 2 && e.size > 64 && e.size < 4096) {
            let mut img = base.clone();
            let off = parsed.entry_offsets[i] + 120;
            img[off..off + 8].copy_from_slice(&1u64.to_le_bytes());
            cases.push(("R21-mini-chain-length", img));
        }
        for (rule, img) in cases {
            let ids: Vec<String> = refparse::check(&img).into_iter().map(|r| r.0).collect();
            checked += 1;
            if !ids.iter().any(|r| r == rule) {
                problems.push(format!("V{}: hand-made damage should violate {} but the checker reports {:?}", version, rule, ids));
            }
        }
    }
    ev["coverage"]["checker_selftest"] = serde_json::json!({"negative_images_checked": checked, "problems": problems});
    if problems.is_empty() {
        match crate::props::scenarios::huge_library_file() {
            Ok(n) => {
                ev["coverage"]["huge_library_file_steps"] = serde_json::json!(n);
            }
            Err(v) => return Some(v),
        }
        match crate::props::scenarios::grow_beyond_4gib() {
            Ok(n) => {
                ev["coverage"]["grow_beyond_4gib_steps"] = serde_json::json!(n);
                None
            }
            Err(v) => Some(v),
        }
    } else {
        Some(Violation { key: "harness|checker_selftest".into(), detail: problems.join("; "), case: Value::Null, trace: vec![] })
    }
}

pub fn def() -> PropDef {
    PropDef {
        id: "C03",
        level: "exploration",
        rule: "histories as in C02 plus a large-file profile (streams of 60 KiB - 1.2 MiB, thorough 9 MiB, hundreds of small streams, remove/recreate churn); the independent MS-CFB checker (harness/src/refparse.rs, no cfb code) judges the raw byte image after every op (every 8th in the large profile) and at the end. Scenario steps: a version-3 file grown by the library to 32.4 MB (four DIFAT sectors) and a version-4 file grown past 4 GiB on a sparse backend (1030 FAT sectors, a DIFAT sector, offsets beyond 2^32), both judged by the checker and reopened in both modes. Non-trivial = the final image has >=2 FAT sectors or a DIFAT sector or >=2 directory sectors or >=2 MiniFAT sectors (measured by the parser), and some chain was freed and another allocated afterwards; distinct = distinct case JSON. Thorough tier: libFuzzer campaign fz_hist over byte-encoded histories (16-byte record per op) with this same runner and oracle.",
        assumptions: &["core rules R01-R31 of DESIGN.md 3.3 are the clauses of the property statement; advisory rules never fail", "checker validated by hand-built negative images in the replay tier and by the synthesizer's images"],
        quick_cases: 700,
        thorough_cases: 8000,
        worker,
        solo,
        hang_cpu_s: 60.0,
        extra: Some(checker_selftest),
        confirm_known: false,
    }
}

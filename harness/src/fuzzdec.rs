//! Byte-level decoder for operation histories (`fz_hist`): a fixed 24-byte head followed by
//! 16-byte records, one per operation, so that libFuzzer's insertions, deletions and
//! cross-overs of byte ranges act as insertions, deletions and splices of operations.
//! (proptest's pass-through generator cannot serve here: every `prop_oneof!` forks the
//! generator for its lazily built shrink alternatives, and a pass-through fork hands half of
//! the remaining bytes to the child - the input is used up after a dozen choices and rand's
//! unbiased range sampling then rejects the zero draws for ever.)
//! The decoder produces the same `Case` values as `gen.rs` with the same engine-side
//! soundness rules (two handles on one stream, stale handles ... are skipped by the engine).

use crate::gen::{Profile, SIZES};
use crate::ops::*;

struct Rec<'a> {
    b: &'a [u8],
    i: usize,
}

impl<'a> Rec<'a> {
    fn u8(&mut self) -> u8 {
        let v = self.b.get(self.i).copied().unwrap_or(0);
        self.i += 1;
        v
    }
    fn u16(&mut self) -> u16 {
        u16::from_le_bytes([self.u8(), self.u8()])
    }
    fn u32(&mut self) -> u32 {
        u32::from_le_bytes([self.u8(), self.u8(), self.u8(), self.u8()])
    }
    fn u64(&mut self) -> u64 {
        (self.u32() as u64) | ((self.u32() as u64) << 32)
    }
}

/// Names that collide, nearly collide, differ in case only, are long, wide or exceptional
/// under upper-casing; the pool of a case is a window of this list chosen by the head.
const NAMES: &[&str] = &[
    "a", "A", "b", "ab", "aB", "Ab", "abc", "abd", "B", "Z", "_", "z", "[", "a b", "1", "10", "2", "\u{e9}", "\u{c9}", "\u{df}", "SS", "ss", "\u{131}", "I", "i", "\u{130}", "\u{17f}",
    "S", "\u{3c2}", "\u{3c3}", "\u{3a3}", "\u{1f600}", "\u{e000}\u{e000}", "\u{ff41}", "\u{ff21}", "\u{10000}", "\u{1d11e}", "Stream", "stream", "STREAM", "Storage1", "storage1", "\u{5}SummaryInformation",
    "\u{5}DocumentSummaryInformation", "_VBA_PROJECT", "PROJECTwm", "1234567890123456789012345678901", "123456789012345678901234567890A", "123456789012345678901234567890a", "\u{4e00}\u{4e00}\u{4e00}\u{4e00}\u{4e00}\u{4e00}\u{4e00}\u{4e00}\u{4e00}\u{4e00}\u{4e00}\u{4e00}\u{4e00}\u{4e00}\u{4e00}\u{4e00}\u{4e00}\u{4e00}\u{4e00}\u{4e00}\u{4e00}\u{4e00}\u{4e00}\u{4e00}\u{4e00}\u{4e00}\u{4e00}\u{4e00}\u{4e00}\u{4e00}\u{4e00}",
    "x.y", "...", "~", "\u{7f}", "e0", "e1", "e2", "e3", "e4", "e5", "e6", "e7", "m", "d", "t", "f", "p", "w", "c", "e", "g", "n", "r", "v", "y",
];

fn size(r: &mut Rec, max: u32) -> u32 {
    let k = r.u8();
    let v = r.u16() as u32;
    let s = if k < 160 {
        SIZES[(k as usize) % SIZES.len()]
    } else if k < 210 {
        v % 301
    } else {
        // spread over [0, max]
        ((v as u64 * (max as u64 + 1)) >> 16) as u32
    };
    s.min(max)
}

fn data(r: &mut Rec, max: u32) -> DataSpec {
    let len = size(r, max);
    DataSpec { len, seed: r.u8() }
}

fn spell(r: &mut Rec, fancy: u32) -> Spell {
    let k = r.u8();
    if (k as u32 % 10) >= fancy.max(1) {
        return Spell::default();
    }
    let f = r.u8();
    let m = r.u16();
    Spell {
        lead: f & 3,
        trail: f & 4 != 0,
        dot: if f & 8 != 0 { Some(f >> 4) } else { None },
        detour: if f & 0x80 != 0 { Some((k >> 3, m)) } else { None },
        case_mask: if f & 0x40 != 0 { 0 } else { (m as u32).wrapping_mul(0x9E37) },
        case_pick: k >> 1,
    }
}

const BAD: [BadKind; 6] = [BadKind::MissingParent, BadKind::UnderStream, BadKind::Escape, BadKind::NonUtf8, BadKind::InvalidName, BadKind::Missing];

fn bad_path(r: &mut Rec) -> PathSpec {
    let k = r.u8();
    PathSpec::Bad { kind: BAD[k as usize % 6], base: r.u16(), name: r.u16() }
}

fn target(r: &mut Rec, kind: PickKind, bad: u32, fancy: u32) -> PathSpec {
    let sel = r.u8() as u32 % 20;
    let b = bad.clamp(1, 10);
    if sel < b {
        bad_path(r)
    } else if sel < 2 * b {
        PathSpec::Pick { kind: PickKind::AnyOrRoot, idx: r.u16(), spell: spell(r, fancy) }
    } else {
        PathSpec::Pick { kind, idx: r.u16(), spell: spell(r, fancy) }
    }
}

fn create_path(r: &mut Rec, bad: u32, fancy: u32) -> PathSpec {
    let sel = r.u8() as u32 % 20;
    let b = bad.clamp(1, 10);
    if sel < b {
        bad_path(r)
    } else if sel < 2 * b {
        PathSpec::Pick { kind: PickKind::AnyOrRoot, idx: r.u16(), spell: spell(r, fancy) }
    } else {
        PathSpec::New { parent: r.u16(), name: r.u16(), spell: spell(r, fancy) }
    }
}

fn len_spec(r: &mut Rec, max: u32) -> LenSpec {
    const REL: [i32; 19] = [-4097, -4096, -513, -512, -65, -64, -63, -1, 1, 63, 64, 65, 108, 500, 512, 513, 4095, 4096, 4097];
    let k = r.u8();
    match k % 8 {
        0..=3 => LenSpec::Abs(size(r, max)),
        4..=6 => LenSpec::Rel(REL[(k as usize >> 3) % REL.len()]),
        _ => LenSpec::Rel((r.u16() % 600) as i32 - 300),
    }
}

fn seek(r: &mut Rec) -> SeekSpec {
    const D: [i16; 11] = [0, -1, 1, -64, 64, -512, 512, -1024, 1024, -1025, 1025];
    const XU: [u64; 9] = [0, 1, u32::MAX as u64, 1 << 32, 1 << 62, i64::MAX as u64, (i64::MAX as u64) + 1, u64::MAX - 1, u64::MAX];
    const XI: [i64; 11] = [0, 1, -1, i32::MIN as i64, i32::MAX as i64, -(1i64 << 32), 1i64 << 32, i64::MIN, i64::MIN + 1, i64::MAX, i64::MAX - 1];
    let k = r.u8();
    let frac = r.u16();
    let d = r.u8();
    let delta = if d < 128 { 0 } else if d < 220 { D[d as usize % D.len()] } else { (r.u16() % 4000) as i16 - 2000 };
    match k % 14 {
        0..=4 => SeekSpec::Start { frac, delta },
        5..=7 => SeekSpec::End { frac, delta },
        8..=10 => SeekSpec::Cur { frac, delta },
        11 => SeekSpec::StartRaw(XU[d as usize % XU.len()]),
        12 => SeekSpec::EndRaw(XI[d as usize % XI.len()]),
        _ => SeekSpec::CurRaw(XI[d as usize % XI.len()]),
    }
}

fn time(r: &mut Rec) -> TimeSpec {
    const S: [u64; 15] = [0, 1, 59, 86_400, 11_644_473_599, 11_644_473_600, 11_644_473_601, 1_700_000_000, 4_102_444_800, 1_833_029_933_770, 1_833_029_933_771, 1_844_674_407_370, 1_844_674_407_371, 1u64 << 40, (1u64 << 62) - 1];
    const N: [u32; 8] = [0, 1, 99, 100, 101, 199, 999_999_900, 999_999_999];
    let k = r.u8();
    let secs = if k & 3 != 3 { S[(k as usize >> 2) % S.len()] } else { r.u32() as u64 };
    let n = r.u8();
    let nanos = if n & 3 != 3 { N[(n as usize >> 2) % N.len()] } else { r.u32() % 1_000_000_000 };
    TimeSpec { neg: k & 0x80 != 0, secs, nanos }
}

fn handle_op(r: &mut Rec, p: &Profile) -> Op {
    let k = r.u8();
    let slot = r.u8() % 3;
    let ms = p.max_size;
    match k % 46 {
        0..=3 => Op::HOpen { slot, p: target(r, PickKind::Stream, p.bad, p.fancy) },
        4..=5 => Op::HCreate { slot, p: create_path(r, p.bad, p.fancy) },
        6..=10 => Op::HRead { slot, n: size(r, ms) },
        11..=12 => Op::HReadExact { slot, n: size(r, ms) },
        13..=15 => Op::HFillConsume { slot, frac: r.u16() },
        16..=20 => Op::HWrite { slot, data: data(r, ms) },
        21..=23 => Op::HWriteAll { slot, data: data(r, ms) },
        24..=29 => Op::HSeek { slot, s: seek(r) },
        30..=32 => Op::HSetLen { slot, len: len_spec(r, ms) },
        33..=35 => Op::HFlush { slot },
        36 => Op::HLen { slot },
        37 => Op::HPos { slot },
        38 => Op::HReadToEnd { slot },
        39..=40 => Op::HWriteV { slot, data: data(r, ms), a: r.u16(), b: r.u16() },
        41 => Op::HReadV { slot, n1: size(r, ms), n2: size(r, ms) },
        42 => Op::HReadUntil { slot, byte: r.u8() },
        43 => Op::HRewind { slot },
        _ => Op::HClose { slot },
    }
}

fn op(rec: &[u8], p: &Profile) -> Op {
    let mut r = Rec { b: rec, i: 0 };
    let total = p.create + p.remove + p.query + p.content + p.meta + p.reopen + p.handles;
    let mut w = (r.u8() as u32 * total.max(1)) >> 8;
    let (bad, fancy, ms) = (p.bad, p.fancy, p.max_size);
    let k = r.u8();
    if w < p.create {
        return match k % 14 {
            0..=3 => Op::CreateStorage { p: create_path(&mut r, bad, fancy) },
            4 => Op::CreateStorageAll { p: create_path(&mut r, bad, fancy) },
            5 => Op::CreateStorageAll { p: PathSpec::Bad { kind: BadKind::MissingParent, base: r.u16(), name: r.u16() } },
            6..=11 => Op::CreateStream { p: create_path(&mut r, bad, fancy), data: data(&mut r, ms) },
            _ => Op::CreateNewStream { p: create_path(&mut r, bad, fancy), data: data(&mut r, ms) },
        };
    }
    w -= p.create;
    if w < p.remove {
        return match k % 8 {
            0..=3 => Op::RemoveStream { p: target(&mut r, PickKind::Stream, bad, fancy) },
            4..=6 => Op::RemoveStorage { p: target(&mut r, PickKind::Storage, bad, fancy) },
            _ => Op::RemoveStorageAll { p: target(&mut r, PickKind::StorageOrRoot, bad, fancy) },
        };
    }
    w -= p.remove;
    if w < p.query {
        return match k % 20 {
            0..=2 => Op::List { p: target(&mut r, PickKind::StorageOrRoot, bad, fancy) },
            3 => Op::ListRoot,
            4..=5 => Op::Walk,
            6..=7 => Op::WalkStorage { p: target(&mut r, PickKind::StorageOrRoot, bad, fancy) },
            8..=9 => Op::Exists { p: target(&mut r, PickKind::Any, bad + 2, fancy) },
            10 => Op::IsStream { p: target(&mut r, PickKind::Any, bad + 2, fancy) },
            11 => Op::IsStorage { p: target(&mut r, PickKind::Any, bad + 2, fancy) },
            12..=14 => Op::Entry { p: target(&mut r, PickKind::AnyOrRoot, bad, fancy) },
            15 => Op::RootEntry,
            _ => Op::ReadAll { p: target(&mut r, PickKind::Stream, bad, fancy) },
        };
    }
    w -= p.query;
    if w < p.content {
        return match k % 7 {
            0..=2 => Op::Overwrite { p: target(&mut r, PickKind::Stream, bad, fancy), frac: r.u16(), data: data(&mut r, ms) },
            _ => Op::SetLen { p: target(&mut r, PickKind::Stream, bad, fancy), len: len_spec(&mut r, ms) },
        };
    }
    w -= p.content;
    if w < p.meta {
        return match k % 7 {
            0..=1 => {
                let p = target(&mut r, PickKind::StorageOrRoot, bad, fancy);
                let c = r.u8();
                let clsid = match c % 8 {
                    0 => [0u8; 16],
                    1 => [0xff; 16],
                    2 | 3 => [0, 1, 2, 3, 4, 5, 6, 7, 8, 9, 10, 11, 12, 13, 14, 15],
                    _ => {
                        let x = r.u64().wrapping_mul(0x9E37_79B9_7F4A_7C15);
                        let mut a = [0u8; 16];
                        a[..8].copy_from_slice(&x.to_le_bytes());
                        a[8..].copy_from_slice(&x.rotate_left(17).to_be_bytes());
                        a
                    }
                };
                Op::SetClsid { p, clsid }
            }
            2..=3 => {
                let p = target(&mut r, PickKind::AnyOrRoot, bad, fancy);
                let c = r.u8();
                let bits = if c & 1 == 0 { [0u32, 1, 0x8000_0000, 0xffff_ffff, 0xdead_beef][(c as usize >> 1) % 5] } else { r.u32() };
                Op::SetStateBits { p, bits }
            }
            4 => Op::SetCreated { p: target(&mut r, PickKind::AnyOrRoot, bad, fancy), t: time(&mut r) },
            5 => Op::SetModified { p: target(&mut r, PickKind::AnyOrRoot, bad, fancy), t: time(&mut r) },
            _ => Op::Touch { p: target(&mut r, PickKind::AnyOrRoot, bad, fancy) },
        };
    }
    w -= p.meta;
    if w < p.reopen {
        return if k % 4 == 3 { Op::Flush } else { Op::Reopen { strict: k & 4 != 0 } };
    }
    handle_op(&mut r, p)
}

pub const HEAD: usize = 24;
pub const REC: usize = 16;

/// Decodes fuzz bytes into a history under the op weights of `p`.
pub fn case(bytes: &[u8], p: &Profile, start_foreign: bool) -> Option<Case> {
    if bytes.len() < HEAD + REC {
        return None;
    }
    let mut h = Rec { b: &bytes[..HEAD], i: 0 };
    let version = if h.u8() & 1 == 0 { 3 } else { 4 };
    let max_buf = p.max_bufs[h.u8() as usize % p.max_bufs.len().max(1)];
    let st = h.u8();
    let seed = h.u64();
    let start = if start_foreign && st % 4 == 3 { Start::Foreign { seed } } else { Start::Fresh };
    // pool: a window of NAMES (start, stride, length from the head) - collisions included
    let n = p.pool_min + (h.u8() as usize % (p.pool_max - p.pool_min + 1));
    let first = h.u8() as usize;
    let stride = 1 + (h.u8() as usize % 7);
    let pool: Vec<String> = (0..n).map(|i| NAMES[(first + i * stride) % NAMES.len()].to_string()).collect();
    let ops: Vec<Op> = bytes[HEAD..].chunks(REC).take(p.max_ops.max(1)).map(|rec| op(rec, p)).collect();
    Some(Case { version, max_buf, start, pool, ops })
}

/// Every character of NAMES must come from the closed alphabet of the name oracle
/// (names.rs): outside it (e.g. cased supplementary-plane letters, mappings younger than
/// Unicode 3.0) the oracle makes no claim and a mismatch would be a false alarm.
pub fn names_outside_alphabet() -> Vec<char> {
    let a = crate::names::alphabet();
    let mut bad = Vec::new();
    for n in NAMES {
        for c in n.chars() {
            let ok = a.ascii_letters.contains(&c) || a.ascii_other.contains(&c) || a.cased_bmp.contains(&c) || a.exceptional.contains(&c) || a.caseless_bmp.contains(&c) || a.supplementary.contains(&c);
            if !ok && !bad.contains(&c) {
                bad.push(c);
            }
        }
    }
    bad
}

#!/bin/bash
# usage: tools/eval_benign.sh <out-dir> <k> <name>
# A change a sub-agent wrote to be BENIGN (keeps all 18 properties): the repository's tests and all 18
# quick checks run against a scratch copy with the patch; any exit 1 is a false alarm to look into
# (or the change is not benign after all). Stored under /verif/benign/<name>/.
set -u
out="$1"; k="$2"; name="$3"
d=/verif/benign/$name; mkdir -p "$d"
cp "$out/patch$k.diff" "$d/patch.diff"; [ -f "$out/notes$k.md" ] && cp "$out/notes$k.md" "$d/notes.md"
ids=$(/verif/harness/target/checked/cfbverif list | tr '\n' ' ')
MUT_TESTS=1 /verif/tools/run_mutant.sh "$d/patch.diff" $ids > "$d/result.txt" 2>&1
echo "== $name: $(grep -c 'exit=0' $d/result.txt) quiet, alarms: $(grep -E 'exit=[12]' $d/result.txt | cut -c1-160 | tr '\n' ';')"

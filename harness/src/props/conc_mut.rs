//! C07 under thread interleavings: one thread uses stream handles (read, write, seek,
//! set_len, flush) while another thread calls the `&mut self` API of the compound file on
//! *other* entries (metadata setters on any object incl. the root and the handles' own
//! streams, creation and removal of entries that have no handle). `Stream` handles do not
//! borrow the `CompoundFile`, so the crate's API allows this. Every call takes the lock for
//! its whole effect, so the two scripts commute: whatever the schedule, the final state is
//! the model with both scripts applied, nothing deadlocks or panics, and the image is
//! well-formed. The schedule is driven by the deterministic scheduler of C14 (scheduling
//! points = lock events), so a case is a pure function of its schedule bytes.

use crate::backend::Io;
use crate::engine::{Cfb, Engine, Oracles};
use crate::model::*;
use crate::ops::*;
use crate::runner::Violation;
use crate::sched;
use crate::util::*;
use proptest::collection::vec;
use proptest::prelude::*;
use proptest::test_runner::{Config, RngSeed, TestCaseError, TestRunner};
use serde::{Deserialize, Serialize};
use std::io::{Read, Seek, SeekFrom, Write};

const STREAMS: &[&str] = &["/h0", "/dir/h1", "/other", "/dir/small"];
const NEW_NAMES: &[&str] = &["/n0", "/dir/n1", "/n2", "/dir/sub/n3"];

#[derive(Clone, Debug, Serialize, Deserialize)]
pub enum MOp {
    /// set_state_bits on: 0 root, 1 /dir, 2 /dir/sub, 3.. the streams
    SetState(u8, u32),
    SetClsid(u8, u8),
    SetModified(u8, u32),
    Touch(u8),
    CreateStream(u8, DataSpec),
    CreateStorage(u8),
    RemoveNew(u8),
    /// overwrite the content of /other (no handle is open on it)
    RewriteOther(DataSpec),
}

#[derive(Clone, Debug, Serialize, Deserialize)]
pub enum HOp {
    Write(u8, DataSpec),
    Read(u8, u16),
    Seek(u8, u16),
    SetLen(u8, u16),
    Flush(u8),
}

#[derive(Clone, Debug, Serialize, Deserialize)]
pub struct ConcCase {
    pub version: u8,
    pub max_buf: Option<u32>,
    pub sizes: Vec<u16>,
    pub mutator: Vec<MOp>,
    pub io: Vec<HOp>,
    pub schedule: Vec<u8>,
}

fn strategy() -> BoxedStrategy<ConcCase> {
    let d = || (proptest::sample::select(vec![1u32, 64, 100, 700, 1500, 4096, 5000]), any::<u8>()).prop_map(|(len, seed)| DataSpec { len, seed });
    let mop = prop_oneof![
        6 => (0u8..7, any::<u32>()).prop_map(|(t, b)| MOp::SetState(t, b)),
        2 => (0u8..3, any::<u8>()).prop_map(|(t, b)| MOp::SetClsid(t, b)),
        2 => (0u8..3, any::<u32>()).prop_map(|(t, s)| MOp::SetModified(t, s)),
        1 => (0u8..7).prop_map(MOp::Touch),
        2 => (0u8..4, d()).prop_map(|(n, data)| MOp::CreateStream(n, data)),
        1 => (0u8..4).prop_map(MOp::CreateStorage),
        2 => (0u8..4).prop_map(MOp::RemoveNew),
        1 => d().prop_map(MOp::RewriteOther),
    ];
    let hop = prop_oneof![
        6 => (0u8..2, d()).prop_map(|(h, data)| HOp::Write(h, data)),
        2 => (0u8..2, proptest::sample::select(vec![1u16, 100, 1024, 5000])).prop_map(|(h, n)| HOp::Read(h, n)),
        3 => (0u8..2, any::<u16>()).prop_map(|(h, f)| HOp::Seek(h, f)),
        2 => (0u8..2, proptest::sample::select(vec![0u16, 1, 64, 1000, 4095, 4096, 6000])).prop_map(|(h, l)| HOp::SetLen(h, l)),
        3 => (0u8..2).prop_map(HOp::Flush),
    ];
    (
        proptest::sample::select(vec![3u8, 4]),
        proptest::sample::select(vec![Some(1024u32), None]),
        vec(proptest::sample::select(vec![0u16, 10, 64, 700, 4096, 5000]), STREAMS.len()),
        vec(mop, 1..=12),
        vec(hop, 1..=14),
        vec(any::<u8>(), 0..120),
    )
        .prop_map(|(version, max_buf, sizes, mutator, io, schedule)| ConcCase { version, max_buf, sizes, mutator, io, schedule })
        .boxed()
}

fn chain(p: &str) -> Vec<String> {
    p.split('/').filter(|s| !s.is_empty()).map(|s| s.to_string()).collect()
}

fn target(t: u8) -> &'static str {
    match t % 7 {
        0 => "/",
        1 => "/dir",
        2 => "/dir/sub",
        k => STREAMS[(k - 3) as usize],
    }
}

/// Runs one case. Ok(points) or the failure (key, detail, scheduler log).
fn run(c: &ConcCase) -> Result<u64, (Fail, Vec<String>)> {
    let fail0 = |f: Fail| (f, Vec::new());
    let io = Io::new();
    let img = io.peer();
    let v = if c.version == 3 { cfb::Version::V3 } else { cfb::Version::V4 };
    let mut model = Model::new();
    let t0 = 1_600_000_000u64;
    let built = guard("build", || -> std::io::Result<Cfb> {
        let mut f = cfb::CompoundFile::create_with_version(v, io)?;
        for (i, p) in ["/dir", "/dir/sub"].iter().enumerate() {
            f.create_storage(p)?;
            let t = std::time::UNIX_EPOCH + std::time::Duration::from_secs(t0 + i as u64);
            f.set_created_time(p, t)?;
            f.set_modified_time(p, t)?;
        }
        for (i, p) in STREAMS.iter().enumerate() {
            let mut s = f.create_stream(p)?;
            s.write_all(&pattern(i as u8 + 1, 0, c.sizes[i % c.sizes.len()] as usize))?;
        }
        f.flush()?;
        match c.max_buf {
            None => Ok(f),
            Some(m) => cfb::OpenOptions::new().max_buffer_size(m as usize).open_with(f.into_inner()),
        }
    })
    .map_err(fail0)?;
    let mut file = built.map_err(|e| fail0(Fail::new("harness|build", e.to_string())))?;
    for (i, p) in ["/dir", "/dir/sub"].iter().enumerate() {
        let names = chain(p);
        let (name, parent) = names.split_last().unwrap();
        let ft = filetime_from_unix(false, t0 + i as u64, 0);
        model.insert(parent, Node { name: name.clone(), state: 0, kind: Kind::Storage { children: vec![], clsid: [0; 16], created: TimeVal::Exact(ft), modified: TimeVal::Exact(ft) } });
    }
    for (i, p) in STREAMS.iter().enumerate() {
        let names = chain(p);
        let (name, parent) = names.split_last().unwrap();
        model.insert(parent, Node { name: name.clone(), state: 0, kind: Kind::Stream { data: pattern(i as u8 + 1, 0, c.sizes[i % c.sizes.len()] as usize) } });
    }
    let mut handles: Vec<cfb::Stream<Io>> = Vec::new();
    for p in &STREAMS[..2] {
        handles.push(file.open_stream(p).map_err(|e| fail0(Fail::new("harness|open", e.to_string())))?);
    }
    let mut hdata: Vec<Vec<u8>> = STREAMS[..2]
        .iter()
        .map(|p| match &model.get(&chain(p)).unwrap().kind {
            Kind::Stream { data } => data.clone(),
            _ => unreachable!(),
        })
        .collect();

    sched::reset(2, c.schedule.clone());
    cfb::verif_hooks::set_observer(Some(sched::observer));
    let mut io_fail: Option<Fail> = None;
    let mut mut_fail: Option<Fail> = None;
    let io_script = c.io.clone();
    std::thread::scope(|scope| {
        let hd = &mut hdata;
        let hs = &mut handles;
        let file = &mut file;
        let model = &mut model;
        // the mutator on its own thread (tid 1); `Stream` is not Send, so the handles stay here
        let j = scope.spawn(move || {
            let r = std::panic::catch_unwind(std::panic::AssertUnwindSafe(|| -> Result<(), Fail> {
                sched::enter(1);
                for op in c.mutator.iter() {
                    let bad = |what: &str, e: std::io::Error| Fail::new(format!("mismatch|{}|concurrent_mutator|Ok|Err", what), format!("{:?}: {}", op, e));
                    match op {
                        MOp::SetState(t, bits) => {
                            let p = target(*t);
                            file.set_state_bits(p, *bits).map_err(|e| bad("set_state_bits", e))?;
                            if p == "/" {
                                model.root.state = *bits;
                            } else {
                                model.get_mut(&chain(p)).unwrap().state = *bits;
                            }
                        }
                        MOp::SetClsid(t, b) => {
                            let p = target(*t % 3);
                            let id = [*b; 16];
                            file.set_storage_clsid(p, uuid::Uuid::from_bytes_le(id)).map_err(|e| bad("set_storage_clsid", e))?;
                            let node = if p == "/" { &mut model.root } else { model.get_mut(&chain(p)).unwrap() };
                            if let Kind::Storage { clsid, .. } = &mut node.kind {
                                *clsid = id;
                            }
                        }
                        MOp::SetModified(t, s) => {
                            let p = target(*t % 3);
                            let when = std::time::UNIX_EPOCH + std::time::Duration::from_secs(*s as u64);
                            file.set_modified_time(p, when).map_err(|e| bad("set_modified_time", e))?;
                            let node = if p == "/" { &mut model.root } else { model.get_mut(&chain(p)).unwrap() };
                            if let Kind::Storage { modified, .. } = &mut node.kind {
                                *modified = TimeVal::Exact(filetime_from_unix(false, *s as u64, 0));
                            }
                        }
                        MOp::Touch(t) => {
                            let p = target(*t);
                            file.touch(p).map_err(|e| bad("touch", e))?;
                            let node = if p == "/" { &mut model.root } else { model.get_mut(&chain(p)).unwrap() };
                            if let Kind::Storage { modified, .. } = &mut node.kind {
                                *modified = TimeVal::Unknown;
                            }
                        }
                        MOp::CreateStream(n, d) => {
                            let p = NEW_NAMES[*n as usize % 3];
                            let names = chain(p);
                            let b = d.bytes();
                            if matches!(model.get(&names).map(|x| &x.kind), Some(Kind::Storage { .. })) {
                                continue;
                            }
                            let mut s = file.create_stream(p).map_err(|e| bad("create_stream", e))?;
                            s.write_all(&b).and_then(|_| s.flush()).map_err(|e| bad("write_all", e))?;
                            drop(s);
                            let (name, parent) = names.split_last().unwrap();
                            match model.get_mut(&names) {
                                Some(node) => node.kind = Kind::Stream { data: b },
                                None => model.insert(parent, Node { name: name.clone(), state: 0, kind: Kind::Stream { data: b } }),
                            }
                        }
                        MOp::CreateStorage(n) => {
                            let p = NEW_NAMES[*n as usize % 3];
                            let names = chain(p);
                            if model.get(&names).is_some() {
                                continue;
                            }
                            file.create_storage(p).map_err(|e| bad("create_storage", e))?;
                            let (name, parent) = names.split_last().unwrap();
                            model.insert(parent, Node { name: name.clone(), state: 0, kind: Kind::Storage { children: vec![], clsid: [0; 16], created: TimeVal::Unknown, modified: TimeVal::Unknown } });
                        }
                        MOp::RemoveNew(n) => {
                            let p = NEW_NAMES[*n as usize % 3];
                            let names = chain(p);
                            match model.get(&names).map(|x| matches!(x.kind, Kind::Stream { .. })) {
                                None => continue,
                                Some(true) => file.remove_stream(p).map_err(|e| bad("remove_stream", e))?,
                                Some(false) => file.remove_storage(p).map_err(|e| bad("remove_storage", e))?,
                            }
                            model.remove(&names);
                        }
                        MOp::RewriteOther(d) => {
                            let b = d.bytes();
                            let mut s = file.create_stream("/other").map_err(|e| bad("create_stream", e))?;
                            s.write_all(&b).and_then(|_| s.flush()).map_err(|e| bad("write_all", e))?;
                            drop(s);
                            model.get_mut(&chain("/other")).unwrap().kind = Kind::Stream { data: b };
                        }
                    }
                }
                Ok(())
            }));
            sched::finish(1);
            match r {
                Ok(Ok(())) => None,
                Ok(Err(f)) => Some(f),
                Err(p) => {
                    if p.downcast_ref::<AbortSentinel>().is_none() {
                        let (loc, msg) = take_panic().unwrap_or(("?".into(), "?".into()));
                        Some(Fail::new(format!("panic|{}|{}|mutator_thread", loc, normalise_msg(&msg)), format!("mutator thread panicked at {}: {}", loc, msg)))
                    } else {
                        None
                    }
                }
            }
        });
        {
            let r = std::panic::catch_unwind(std::panic::AssertUnwindSafe(|| -> Result<(), Fail> {
                sched::enter(0);
                let mut pos = vec![0u64; hs.len()];
                for op in io_script.iter() {
                    match op {
                        HOp::Write(h, d) => {
                            let k = *h as usize % hs.len();
                            let b = d.bytes();
                            let n = hs[k].write(&b).map_err(|e| Fail::new("mismatch|h_write|concurrent_mutator|Ok|Err", e.to_string()))?;
                            let p0 = pos[k] as usize;
                            if hd[k].len() < p0 + n {
                                hd[k].resize(p0 + n, 0);
                            }
                            hd[k][p0..p0 + n].copy_from_slice(&b[..n]);
                            pos[k] += n as u64;
                        }
                        HOp::Read(h, n) => {
                            let k = *h as usize % hs.len();
                            let mut buf = vec![0u8; *n as usize];
                            let got = hs[k].read(&mut buf).map_err(|e| Fail::new("mismatch|h_read|concurrent_mutator|Ok|Err", e.to_string()))?;
                            let p0 = pos[k] as usize;
                            if p0 + got > hd[k].len() || buf[..got] != hd[k][p0..p0 + got] {
                                return Err(Fail::new("mismatch|h_read|concurrent_mutator|model_bytes|other", format!("read through the handle on {} at {} returned wrong data", STREAMS[k], p0)));
                            }
                            pos[k] += got as u64;
                        }
                        HOp::Seek(h, f) => {
                            let k = *h as usize % hs.len();
                            let t = (hd[k].len() as u64 * (*f as u64 + 1)) >> 16;
                            hs[k].seek(SeekFrom::Start(t)).map_err(|e| Fail::new("mismatch|h_seek|concurrent_mutator|Ok|Err", e.to_string()))?;
                            pos[k] = t;
                        }
                        HOp::SetLen(h, l) => {
                            let k = *h as usize % hs.len();
                            hs[k].set_len(*l as u64).map_err(|e| Fail::new("mismatch|h_set_len|concurrent_mutator|Ok|Err", e.to_string()))?;
                            hd[k].resize(*l as usize, 0);
                            pos[k] = pos[k].min(*l as u64);
                        }
                        HOp::Flush(h) => {
                            let k = *h as usize % hs.len();
                            hs[k].flush().map_err(|e| Fail::new("mismatch|h_flush|concurrent_mutator|Ok|Err", e.to_string()))?;
                        }
                    }
                }
                for h in hs.iter_mut() {
                    h.flush().map_err(|e| Fail::new("mismatch|h_flush|concurrent_mutator|Ok|Err", e.to_string()))?;
                }
                Ok(())
            }));
            sched::finish(0);
            io_fail = match r {
                Ok(Ok(())) => None,
                Ok(Err(f)) => Some(f),
                Err(p) => {
                    if p.downcast_ref::<AbortSentinel>().is_some() {
                        None
                    } else {
                        let (loc, msg) = take_panic().unwrap_or(("?".into(), "?".into()));
                        Some(Fail::new(format!("panic|{}|{}|io_thread", loc, normalise_msg(&msg)), format!("handle thread panicked at {}: {}", loc, msg)))
                    }
                }
            };
        }
        mut_fail = j.join().unwrap_or_else(|_| Some(Fail::new("harness|join", "join failed")));
    });
    let (deadlock, reentrant, points, _wr, log) = sched::snapshot_result();
    sched::deactivate();
    crate::lockwatch::install();
    let with_log = |f: Fail| (f, log.clone());
    if let Some(d) = deadlock {
        let site = reentrant.first().map(|r| r.2.clone()).unwrap_or_else(|| "none".into());
        return Err(with_log(Fail::new(format!("deadlock|{}|concurrent_mutator", site), format!("deadlock under the writer-preferring lock model: {}", d))));
    }
    if let Some(f) = io_fail.or(mut_fail) {
        return Err(with_log(f));
    }
    guard("drop_handles", move || drop(handles)).map_err(|f| with_log(f))?;
    // the model with both scripts applied
    for (k, p) in STREAMS[..2].iter().enumerate() {
        model.get_mut(&chain(p)).unwrap().kind = Kind::Stream { data: hdata[k].clone() };
    }
    let _ = guard("flush", || file.flush());
    let bytes = img.snapshot();
    let eng = Engine::from_image(bytes.clone(), model.clone(), c.version, None, vec![], Oracles::default(), false).map_err(|f| with_log(f))?;
    eng.compare_dump(&mut file, "after both threads").map_err(|mut f| {
        f.key = format!("{}|concurrent_mutator", f.key);
        with_log(f)
    })?;
    if let Some((id, d)) = crate::refparse::check(&bytes).first() {
        return Err(with_log(Fail::new(format!("rule|{}|concurrent_mutator", id), format!("independent checker on the image after both threads: {} - {}", id, d))));
    }
    let mut strict = guard("open_strict", || crate::engine::open_options(None, true).open_with(Io::from_bytes(bytes.clone())))
        .map_err(|f| with_log(f))?
        .map_err(|e| with_log(Fail::new("mismatch|open_strict|concurrent_mutator|Ok|Err", format!("strict reopen of the image after both threads failed: {}", e))))?;
    eng.compare_dump(&mut strict, "strict reopen after both threads").map_err(|mut f| {
        f.key = format!("{}|concurrent_mutator|reopen", f.key);
        with_log(f)
    })?;
    Ok(points)
}

/// Runs `cases` generated cases (proptest runner, so a failure is shrunk).
pub fn concurrent_mutator(seed: u64, cases: u32) -> Result<(u64, u64), Violation> {
    let what = "handle thread and &mut-API thread under the deterministic scheduler";
    let mut runner = TestRunner::new(Config { cases, failure_persistence: None, rng_seed: RngSeed::Fixed(seed.wrapping_mul(7919).wrapping_add(77)), max_shrink_iters: 400, ..Config::default() });
    let done = std::cell::Cell::new(0u64);
    let busy = std::cell::Cell::new(0u64);
    let failed = std::cell::Cell::new(false);
    let last: std::cell::RefCell<Option<(Fail, Vec<String>)>> = std::cell::RefCell::new(None);
    let res = runner.run(&strategy(), |c| {
        match run(&c) {
            Ok(points) => {
                if !failed.get() {
                    done.set(done.get() + 1);
                    if points >= 40 {
                        busy.set(busy.get() + 1);
                    }
                }
                Ok(())
            }
            Err((f, log)) => {
                failed.set(true);
                let msg = f.key.clone();
                *last.borrow_mut() = Some((f, log));
                Err(TestCaseError::fail(msg))
            }
        }
    });
    match res {
        Ok(()) => Ok((done.get(), busy.get())),
        Err(proptest::test_runner::TestError::Fail(_, c)) => {
            // the minimal case: run it once more for its own failure text
            let (f, log) = match run(&c) {
                Err(x) => x,
                Ok(_) => last.borrow_mut().take().unwrap_or((Fail::new("harness|flaky", "shrunk case passes on re-run"), vec![])),
            };
            Err(Violation { key: f.key, detail: format!("[{}] {}", what, f.detail), case: serde_json::json!({"scenario": what, "case": c}), trace: log.into_iter().rev().take(40).rev().collect() })
        }
        Err(e) => Err(Violation { key: "harness|proptest".into(), detail: e.to_string(), case: serde_json::Value::Null, trace: vec![] }),
    }
}

//! Always-on lock-discipline observer (uses the `verif-hooks` observer of the crate).
//!
//! A thread that asks for the compound file's write lock while it holds a guard on the same
//! lock, or for the read lock while it holds the write guard, would block on itself for ever.
//! CPU-time watchdogs cannot see a blocked process, so every worker installs this observer:
//! the request is turned into a panic that the case runner reports as a violation
//! (`deadlock|self|...`).  Re-entrant *read* requests are left to C14's scheduler (whether
//! they block depends on a waiting writer, i.e. on the schedule).

use cfb::verif_hooks::{Event, EventKind};
use std::cell::RefCell;
use std::collections::HashMap;

#[derive(Default, Clone)]
struct Held {
    reads: u32,
    writes: u32,
    first_at: String,
}

thread_local! {
    static HELD: RefCell<HashMap<usize, Held>> = RefCell::new(HashMap::new());
}

pub const PREFIX: &str = "SELF-DEADLOCK";

fn observer(ev: &Event) {
    let mut fatal: Option<String> = None;
    HELD.with(|h| {
        let mut h = h.borrow_mut();
        let e = h.entry(ev.lock_id).or_default();
        match ev.kind {
            EventKind::BeforeWrite => {
                if e.reads > 0 || e.writes > 0 {
                    fatal = Some(format!("{}: write lock requested at {} while this thread holds a {} guard on the same lock (acquired at {})", PREFIX, ev.caller, if e.writes > 0 { "write" } else { "read" }, e.first_at));
                }
            }
            EventKind::BeforeRead => {
                if e.writes > 0 {
                    fatal = Some(format!("{}: read lock requested at {} while this thread holds the write guard on the same lock (acquired at {})", PREFIX, ev.caller, e.first_at));
                }
            }
            EventKind::AfterRead => {
                if e.reads == 0 && e.writes == 0 {
                    e.first_at = ev.caller.to_string();
                }
                e.reads += 1;
            }
            EventKind::AfterWrite => {
                if e.reads == 0 && e.writes == 0 {
                    e.first_at = ev.caller.to_string();
                }
                e.writes += 1;
            }
            EventKind::ReleaseRead => e.reads = e.reads.saturating_sub(1),
            EventKind::ReleaseWrite => e.writes = e.writes.saturating_sub(1),
        }
        if e.reads == 0 && e.writes == 0 && fatal.is_none() {
            h.remove(&ev.lock_id);
        }
    });
    if let Some(m) = fatal {
        if !std::thread::panicking() {
            std::panic::panic_any(m);
        }
    }
}

/// Installs the observer (worker start; and again after C14 / the two-thread scenario removed theirs).
pub fn install() {
    HELD.with(|h| h.borrow_mut().clear());
    cfb::verif_hooks::set_observer(Some(observer));
}

/// Key and detail for a panic message produced by this observer.
pub fn classify(msg: &str) -> Option<(String, String)> {
    if !msg.starts_with(PREFIX) {
        return None;
    }
    // "... requested at <file:line:col> while ..."
    let at = msg.split(" requested at ").nth(1).and_then(|s| s.split(' ').next()).unwrap_or("?");
    let at = at.rsplit("/repo/").next().unwrap_or(at);
    // line numbers stay in the detail only
    let file = at.split(':').next().unwrap_or(at);
    let kind = if msg.contains(": write lock requested") { "write_while_holding" } else { "read_while_writing" };
    Some((format!("deadlock|self|{}|{}", kind, file), msg.to_string()))
}

pub use cfbverif::fuzzsup::*;

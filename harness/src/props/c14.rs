//! C14 - shared read access concurrent with stream I/O never deadlocks.

use crate::backend::Io;
use crate::engine::{cmp_entry, obs_entry, Cfb, ObsEntry};
use crate::model::*;
use crate::ops::*;
use crate::runner::*;
use crate::sched;
use crate::util::*;
use proptest::collection::vec;
use proptest::prelude::*;
use serde::{Deserialize, Serialize};
use serde_json::Value;
use std::collections::{BTreeMap, BTreeSet};
use std::io::{Read, Seek, SeekFrom, Write};

/// Fixed namespace: the tree is built from these (kind, path) in order.
const TREE: &[(bool, &str)] = &[
    (false, "/docs"),
    (true, "/docs/a"),
    (true, "/docs/b"),
    (true, "/docs/c"),
    (false, "/docs/sub"),
    (true, "/docs/sub/x"),
    (true, "/m"),
    (false, "/z"),
    (true, "/z/q"),
    (true, "/k"),
    (true, "/Big"),
];

#[derive(Clone, Debug, Serialize, Deserialize)]
pub enum ROp {
    Entry(u8),
    Exists(u8),
    IsStream(u8),
    IsStorage(u8),
    RootEntry,
    /// read_storage(path) and take k items, then drop the iterator
    ReadStorage(u8, u8),
    ReadRoot(u8),
    Walk(u8),
    WalkStorage(u8, u8),
    /// two iterators advanced alternately (walk and read_storage)
    TwoIters(u8, u8),
    /// version() - a read-only method outside the listed ones
    Version,
    /// format!("{:?}", compound_file) - Debug::fmt takes &self as well
    DebugFmt,
}

#[derive(Clone, Debug, Serialize, Deserialize)]
pub enum IoOp {
    Open(u8, u8),
    Read(u8, u16),
    Write(u8, DataSpec),
    Seek(u8, u16),
    SetLen(u8, u16),
    Flush(u8),
    Close(u8),
}

#[derive(Clone, Debug, Serialize, Deserialize)]
pub struct C14Case {
    pub version: u8,
    pub max_buf: Option<u32>,
    /// number of entries of TREE to create (>= 6)
    pub tree_len: u8,
    pub sizes: Vec<u16>,
    pub readers: Vec<Vec<ROp>>,
    pub io: Vec<IoOp>,
    pub schedule: Vec<u8>,
}

fn rop_strategy() -> BoxedStrategy<ROp> {
    prop_oneof![
        3 => any::<u8>().prop_map(ROp::Entry),
        1 => any::<u8>().prop_map(ROp::Exists),
        1 => any::<u8>().prop_map(ROp::IsStream),
        1 => any::<u8>().prop_map(ROp::IsStorage),
        1 => Just(ROp::RootEntry),
        3 => (any::<u8>(), 0u8..6).prop_map(|(p, k)| ROp::ReadStorage(p, k)),
        2 => (0u8..6).prop_map(ROp::ReadRoot),
        3 => (0u8..14).prop_map(ROp::Walk),
        2 => (any::<u8>(), 0u8..8).prop_map(|(p, k)| ROp::WalkStorage(p, k)),
        2 => (any::<u8>(), 1u8..10).prop_map(|(p, k)| ROp::TwoIters(p, k)),
        1 => Just(ROp::Version),
        1 => Just(ROp::DebugFmt),
    ]
    .boxed()
}

fn ioop_strategy() -> BoxedStrategy<IoOp> {
    let slot = 0u8..2;
    // mostly small writes; some far larger than 64 KiB, so that one write-back (default buffer) moves a
    // lot of data and any splitting of it over several lock acquisitions shows as an intermediate length
    let d = (proptest::sample::select(vec![1u32, 100, 600, 1024, 1500, 3000, 5000, 1, 100, 600, 1024, 1500, 3000, 5000, 70_000, 150_000, 300_000]), any::<u8>()).prop_map(|(len, seed)| DataSpec { len, seed });
    prop_oneof![
        3 => (slot.clone(), any::<u8>()).prop_map(|(s, p)| IoOp::Open(s, p)),
        4 => (slot.clone(), proptest::sample::select(vec![1u16, 100, 1024, 2000, 5000])).prop_map(|(s, n)| IoOp::Read(s, n)),
        6 => (slot.clone(), d).prop_map(|(s, d)| IoOp::Write(s, d)),
        3 => (slot.clone(), any::<u16>()).prop_map(|(s, f)| IoOp::Seek(s, f)),
        2 => (slot.clone(), proptest::sample::select(vec![0u16, 1, 64, 1000, 4095, 4096, 6000])).prop_map(|(s, l)| IoOp::SetLen(s, l)),
        // a single set_len over several MiB (encoded as 60000 + MiB count)
        1 => (slot.clone(), proptest::sample::select(vec![60002u16, 60003, 60005])).prop_map(|(s, l)| IoOp::SetLen(s, l)),
        3 => slot.clone().prop_map(IoOp::Flush),
        1 => slot.prop_map(IoOp::Close),
    ]
    .boxed()
}

fn strategy(_tier: Tier) -> BoxedStrategy<C14Case> {
    (
        proptest::sample::select(vec![3u8, 4]),
        proptest::sample::select(vec![Some(1024u32), None]),
        6u8..=TREE.len() as u8,
        vec(proptest::sample::select(vec![0u16, 10, 700, 1500, 4096, 5000]), TREE.len()),
        vec(vec(rop_strategy(), 3..=15), 1..=4),
        vec(ioop_strategy(), 2..=20),
        vec(any::<u8>(), 0..200),
    )
        .prop_map(|(version, max_buf, tree_len, sizes, readers, io, schedule)| C14Case { version, max_buf, tree_len, sizes, readers, io, schedule })
        .boxed()
}

/// What a reader observed.
#[derive(Debug, Clone)]
enum RObs {
    Entry(String, Result<ObsEntry, ErrKind>),
    Bool(String, &'static str, bool),
    List(String, Result<Vec<ObsEntry>, ErrKind>, usize),
}

fn paths(tree_len: usize) -> Vec<&'static str> {
    let mut v: Vec<&'static str> = vec!["/"];
    v.extend(TREE.iter().take(tree_len).map(|x| x.1));
    v.push("/missing");
    v.push("/docs/none");
    v
}

fn run_reader(c: &Cfb, script: &[ROp], tree_len: usize) -> Vec<RObs> {
    let ps = paths(tree_len);
    let pick = |i: u8| ps[i as usize % ps.len()];
    let mut out = Vec::new();
    for op in script {
        match op {
            ROp::Entry(i) => out.push(RObs::Entry(pick(*i).into(), c.entry(pick(*i)).map(|e| obs_entry(&e)).map_err(|e| errkind(&e)))),
            ROp::Exists(i) => out.push(RObs::Bool(pick(*i).into(), "exists", c.exists(pick(*i)))),
            ROp::IsStream(i) => out.push(RObs::Bool(pick(*i).into(), "is_stream", c.is_stream(pick(*i)))),
            ROp::IsStorage(i) => out.push(RObs::Bool(pick(*i).into(), "is_storage", c.is_storage(pick(*i)))),
            ROp::RootEntry => out.push(RObs::Entry("/".into(), Ok(obs_entry(&c.root_entry())))),
            ROp::Version => {
                let _ = c.version();
            }
            ROp::DebugFmt => {
                let _ = format!("{:?}", c);
            }
            ROp::ReadStorage(i, k) => {
                let p = pick(*i);
                out.push(RObs::List(format!("read_storage {}", p), c.read_storage(p).map(|it| it.take(*k as usize).map(|e| obs_entry(&e)).collect()).map_err(|e| errkind(&e)), *k as usize));
            }
            ROp::ReadRoot(k) => out.push(RObs::List("read_storage /".into(), Ok(c.read_root_storage().take(*k as usize).map(|e| obs_entry(&e)).collect()), *k as usize)),
            ROp::Walk(k) => out.push(RObs::List("walk /".into(), Ok(c.walk().take(*k as usize).map(|e| obs_entry(&e)).collect()), *k as usize)),
            ROp::WalkStorage(i, k) => {
                let p = pick(*i);
                out.push(RObs::List(format!("walk {}", p), c.walk_storage(p).map(|it| it.take(*k as usize).map(|e| obs_entry(&e)).collect()).map_err(|e| errkind(&e)), *k as usize));
            }
            ROp::TwoIters(i, k) => {
                let p = pick(*i);
                let mut a = c.walk();
                let b = c.read_storage(p);
                let mut va = Vec::new();
                let mut vb = Vec::new();
                match b {
                    Ok(mut b) => {
                        for _ in 0..*k {
                            if let Some(e) = a.next() {
                                va.push(obs_entry(&e));
                            }
                            if let Some(e) = b.next() {
                                vb.push(obs_entry(&e));
                            }
                        }
                        out.push(RObs::List(format!("read_storage {}", p), Ok(vb), *k as usize));
                    }
                    Err(e) => {
                        for _ in 0..*k {
                            if let Some(e) = a.next() {
                                va.push(obs_entry(&e));
                            }
                        }
                        out.push(RObs::List(format!("read_storage {}", p), Err(errkind(&e)), *k as usize));
                    }
                }
                out.push(RObs::List("walk /".into(), Ok(va), *k as usize));
            }
        }
    }
    out
}

fn report(c: &C14Case) -> CaseReport {
    let mut rep = CaseReport { evaluations: 1, ..CaseReport::default() };
    let tree_len = (c.tree_len as usize).clamp(6, TREE.len());
    // ---- build the file (scheduler inactive)
    let io = Io::new();
    let built = guard("build", || -> std::io::Result<(Cfb, Model)> {
        let v = if c.version == 3 { cfb::Version::V3 } else { cfb::Version::V4 };
        let mut f = cfb::CompoundFile::create_with_version(v, io)?;
        let mut m = Model::new();
        for (i, (is_stream, p)) in TREE.iter().take(tree_len).enumerate() {
            let names: Vec<String> = p.split('/').filter(|s| !s.is_empty()).map(|s| s.to_string()).collect();
            let (name, parent) = names.split_last().unwrap();
            if *is_stream {
                let data = pattern(i as u8, 0, c.sizes[i % c.sizes.len()] as usize);
                let mut s = f.create_stream(p)?;
                s.write_all(&data)?;
                drop(s);
                m.insert(parent, Node { name: name.clone(), state: 0, kind: Kind::Stream { data } });
            } else {
                f.create_storage(p)?;
                let t = std::time::UNIX_EPOCH + std::time::Duration::from_secs(1_600_000_000 + i as u64);
                f.set_created_time(p, t)?;
                f.set_modified_time(p, t)?;
                let ft = filetime_from_unix(false, 1_600_000_000 + i as u64, 0);
                m.insert(parent, Node { name: name.clone(), state: 0, kind: Kind::Storage { children: vec![], clsid: [0; 16], created: TimeVal::Exact(ft), modified: TimeVal::Exact(ft) } });
            }
        }
        f.flush()?;
        Ok((f, m))
    });
    let (file, mut model) = match built {
        Ok(Ok(x)) => x,
        Ok(Err(e)) => {
            rep.fail = Some(Fail::new("harness|build", e.to_string()));
            return rep;
        }
        Err(f) => {
            rep.fail = Some(f);
            return rep;
        }
    };
    // reopen with the requested buffer size
    let mut file: Cfb = match c.max_buf {
        None => file,
        Some(m) => {
            let inner = file.into_inner();
            match cfb::OpenOptions::new().max_buffer_size(m as usize).open_with(inner) {
                Ok(f) => f,
                Err(e) => {
                    rep.fail = Some(Fail::new("harness|reopen", e.to_string()));
                    return rep;
                }
            }
        }
    };
    let stream_paths: Vec<&'static str> = TREE.iter().take(tree_len).filter(|x| x.0).map(|x| x.1).collect();
    let nthreads = 1 + c.readers.len();
    sched::reset(nthreads, c.schedule.clone());
    cfb::verif_hooks::set_observer(Some(sched::observer));

    // lengths every stream had at an I/O operation boundary
    let mut allowed: BTreeMap<String, BTreeSet<u64>> = BTreeMap::new();
    for p in stream_paths.iter() {
        let names: Vec<String> = p.split('/').filter(|s| !s.is_empty()).map(|s| s.to_string()).collect();
        if let Kind::Stream { data } = &model.get(&names).unwrap().kind {
            allowed.entry(p.to_string()).or_default().insert(data.len() as u64);
        }
    }
    let mut io_fail: Option<Fail> = None;
    let mut reader_results: Vec<Result<Vec<RObs>, String>> = Vec::new();
    {
        // handles are opened on this thread before the readers get a shared reference:
        // open_stream needs &mut, so the I/O thread pre-opens one handle per stream path
        let mut pre: Vec<Option<cfb::Stream<Io>>> = Vec::new();
        for p in stream_paths.iter() {
            pre.push(file.open_stream(p).ok());
        }
        let shared: &Cfb = &file;
        std::thread::scope(|scope| {
            let mut joins = Vec::new();
            for (ri, script) in c.readers.iter().enumerate() {
                let tid = ri + 1;
                joins.push(scope.spawn(move || {
                    let r = std::panic::catch_unwind(std::panic::AssertUnwindSafe(|| {
                        sched::enter(tid);
                        run_reader(shared, script, tree_len)
                    }));
                    sched::finish(tid);
                    match r {
                        Ok(v) => Ok(v),
                        Err(p) => {
                            if p.downcast_ref::<AbortSentinel>().is_some() {
                                Err("aborted".to_string())
                            } else {
                                let (loc, msg) = take_panic().unwrap_or(("?".into(), "?".into()));
                                Err(format!("panic at {}: {}", loc, msg))
                            }
                        }
                    }
                }));
            }
            // the I/O script on this thread (tid 0)
            let r = std::panic::catch_unwind(std::panic::AssertUnwindSafe(|| -> Result<(), Fail> {
                sched::enter(0);
                let mut slots: Vec<Option<usize>> = vec![None, None];
                let mut pos: Vec<u64> = vec![0; pre.len()];
                for op in c.io.iter() {
                    let slot = match op {
                        IoOp::Open(s, _) | IoOp::Read(s, _) | IoOp::Write(s, _) | IoOp::Seek(s, _) | IoOp::SetLen(s, _) | IoOp::Flush(s) | IoOp::Close(s) => *s as usize % 2,
                    };
                    if let IoOp::Open(_, p) = op {
                        let k = *p as usize % pre.len().max(1);
                        if pre.is_empty() || slots.iter().any(|s| *s == Some(k)) || pre[k].is_none() {
                            continue;
                        }
                        slots[slot] = Some(k);
                        continue;
                    }
                    let k = match slots[slot] {
                        Some(k) => k,
                        None => continue,
                    };
                    let path = stream_paths[k];
                    let names: Vec<String> = path.split('/').filter(|s| !s.is_empty()).map(|s| s.to_string()).collect();
                    let h = pre[k].as_mut().unwrap();
                    let data = match &mut model.get_mut(&names).unwrap().kind {
                        Kind::Stream { data } => data,
                        _ => unreachable!(),
                    };
                    match op {
                        IoOp::Read(_, n) => {
                            let mut buf = vec![0u8; *n as usize];
                            let got = h.read(&mut buf).map_err(|e| Fail::new("mismatch|h_read|concurrent|Ok|Err", e.to_string()))?;
                            let p0 = pos[k] as usize;
                            if got > data.len() - p0 || buf[..got] != data[p0..p0 + got] {
                                return Err(Fail::new("mismatch|h_read|concurrent|model_bytes|other", format!("read on {} at {} returned wrong data", path, p0)));
                            }
                            pos[k] += got as u64;
                        }
                        IoOp::Write(_, d) => {
                            let b = d.bytes();
                            let n = h.write(&b).map_err(|e| Fail::new("mismatch|h_write|concurrent|Ok|Err", e.to_string()))?;
                            let p0 = pos[k] as usize;
                            if data.len() < p0 + n {
                                data.resize(p0 + n, 0);
                            }
                            data[p0..p0 + n].copy_from_slice(&b[..n]);
                            pos[k] += n as u64;
                            allowed.entry(path.to_string()).or_default().insert(data.len() as u64);
                        }
                        IoOp::Seek(_, f) => {
                            let t = (data.len() as u64 * (*f as u64 + 1)) >> 16;
                            h.seek(SeekFrom::Start(t)).map_err(|e| Fail::new("mismatch|h_seek|concurrent|Ok|Err", e.to_string()))?;
                            pos[k] = t;
                        }
                        IoOp::SetLen(_, l) => {
                            let l: u64 = if *l >= 60000 { (*l as u64 - 60000) * 1024 * 1024 + 512 * 1024 } else { *l as u64 };
                            h.set_len(l).map_err(|e| Fail::new("mismatch|h_set_len|concurrent|Ok|Err", e.to_string()))?;
                            data.resize(l as usize, 0);
                            pos[k] = pos[k].min(l);
                            allowed.entry(path.to_string()).or_default().insert(l);
                        }
                        IoOp::Flush(_) => {
                            h.flush().map_err(|e| Fail::new("mismatch|h_flush|concurrent|Ok|Err", e.to_string()))?;
                        }
                        IoOp::Close(_) => {
                            h.flush().map_err(|e| Fail::new("mismatch|h_flush|concurrent|Ok|Err", e.to_string()))?;
                            slots[slot] = None;
                        }
                        IoOp::Open(..) => {}
                    }
                }
                Ok(())
            }));
            sched::finish(0);
            match r {
                Ok(Ok(())) => {}
                Ok(Err(f)) => io_fail = Some(f),
                Err(p) => {
                    if p.downcast_ref::<AbortSentinel>().is_none() {
                        let (loc, msg) = take_panic().unwrap_or(("?".into(), "?".into()));
                        io_fail = Some(Fail::new(format!("panic|{}|{}|io_thread", loc, normalise_msg(&msg)), format!("I/O thread panicked at {}: {}", loc, msg)));
                    }
                }
            }
            for j in joins {
                reader_results.push(j.join().unwrap_or_else(|_| Err("join failed".into())));
            }
        });
        let (deadlock, reentrant, points, wr_while_reader, log) = sched::snapshot_result();
        sched::deactivate();
        crate::lockwatch::install();
        // handles dropped here (scheduler inactive)
        let _ = guard("drop_handles", move || drop(pre));
        rep.trace = log;
        rep.classes.push(format!("points_{}", if points > 200 { ">200" } else if points > 50 { "51-200" } else { "<=50" }));
        if wr_while_reader {
            rep.classes.push("write_request_while_reader_holds".into());
        }
        let crossed = c.readers.iter().flatten().any(|o| matches!(o, ROp::Walk(k) if *k >= 4) || matches!(o, ROp::TwoIters(_, k) if *k >= 4));
        rep.nontrivial = wr_while_reader && crossed;
        // ---- oracles
        if let Some(d) = deadlock {
            let site = reentrant.first().map(|r| format!("{} at {}", r.1, r.2)).unwrap_or_else(|| "no re-entrant acquisition seen".into());
            let key_site = reentrant.first().map(|r| r.2.clone()).unwrap_or_else(|| "none".into());
            rep.fail = Some(Fail::new(format!("deadlock|{}", key_site), format!("deadlock under the writer-preferring lock model: {} [{}]", d, site)));
            return rep;
        }
        if let Some(f) = io_fail {
            rep.fail = Some(f);
            return rep;
        }
        if !reentrant.is_empty() {
            // lock discipline broken but no writer came along in this case: not reported
            rep.classes.push("reentrant_without_deadlock".into());
        }
        for (ri, r) in reader_results.iter().enumerate() {
            match r {
                Err(m) => {
                    rep.fail = Some(Fail::new(format!("reader_thread|{}", normalise_msg(m)), format!("reader thread {}: {}", ri + 1, m)));
                    return rep;
                }
                Ok(obs) => {
                    for o in obs {
                        if let Err(m) = judge(&model, &allowed, o) {
                            rep.fail = Some(Fail::new("mismatch|concurrent_read|model|other", format!("reader thread {}: {}", ri + 1, m)));
                            return rep;
                        }
                    }
                }
            }
        }
    }
    rep
}

fn judge(model: &Model, allowed: &BTreeMap<String, BTreeSet<u64>>, o: &RObs) -> Result<(), String> {
    let names_of = |p: &str| -> Vec<String> { p.split('/').filter(|s| !s.is_empty()).map(|s| s.to_string()).collect() };
    let check_entry = |exp: &EntryInfo, got: &ObsEntry, listing: bool| -> Result<(), String> {
        let mut e = exp.clone();
        if e.is_stream {
            // the length is one of the lengths the stream had at an I/O operation boundary
            let ok = allowed.get(&e.path).map(|s| s.contains(&got.len)).unwrap_or(false);
            if !ok {
                return Err(format!("{}: reported length {} is not a length the stream had at any operation boundary {:?}", e.path, got.len, allowed.get(&e.path)));
            }
            e.len = None;
        }
        cmp_entry(&e, got, listing)
    };
    match o {
        RObs::Entry(p, r) => {
            let exp = model.entry_info(&names_of(p));
            match (exp, r) {
                (Some(e), Ok(g)) => check_entry(&e, g, false),
                (None, Err(ErrKind::NotFound)) => Ok(()),
                (e, g) => Err(format!("entry({}): expected {:?}, got {:?}", p, e.map(|x| x.path), g.as_ref().map(|x| x.path.clone()))),
            }
        }
        RObs::Bool(p, what, got) => {
            let n = model.get(&names_of(p));
            let exp = match *what {
                "exists" => n.is_some(),
                "is_stream" => n.map(|n| n.is_stream()).unwrap_or(false),
                _ => n.map(|n| !n.is_stream()).unwrap_or(false),
            };
            if exp == *got {
                Ok(())
            } else {
                Err(format!("{}({}) = {}, expected {}", what, p, got, exp))
            }
        }
        RObs::List(what, r, k) => {
            let (kind, p) = what.split_once(' ').unwrap();
            let names = names_of(p);
            let node = model.get(&names);
            let exp: Option<Vec<EntryInfo>> = match node {
                None => None,
                Some(n) => {
                    if kind == "read_storage" {
                        if n.is_stream() {
                            None
                        } else {
                            model.list(&names)
                        }
                    } else {
                        model.walk(&names)
                    }
                }
            };
            match (exp, r) {
                (Some(e), Ok(g)) => {
                    let want: Vec<&EntryInfo> = e.iter().take(*k).collect();
                    if want.len() != g.len() {
                        return Err(format!("{}: expected {} items, got {}", what, want.len(), g.len()));
                    }
                    for (a, b) in want.iter().zip(g.iter()) {
                        check_entry(a, b, true).map_err(|m| format!("{}: {}", what, m))?;
                    }
                    Ok(())
                }
                (None, Err(_)) => Ok(()),
                (None, Ok(g)) => {
                    // walk_storage on a stream yields that stream (undocumented, accepted)
                    if kind == "walk" && node.map(|n| n.is_stream()).unwrap_or(false) && g.len() <= 1 {
                        Ok(())
                    } else {
                        Err(format!("{}: expected an error, got {} items", what, g.len()))
                    }
                }
                (Some(_), Err(e)) => Err(format!("{}: unexpected error {:?}", what, e)),
            }
        }
    }
}

fn worker(ctx: &Ctx) -> WorkerResult {
    run_worker(ctx, strategy(ctx.tier), report)
}

fn solo(v: &Value) -> Result<CaseReport, String> {
    run_solo(v, report)
}

pub fn def() -> PropDef {
    PropDef {
        id: "C14",
        level: "exploration",
        rule: "case = tree of 6-11 entries (storage with 3 children and a nested storage) x 1-4 reader scripts of 3-15 read-only calls (entry, exists, is_stream, is_storage, root_entry, read_storage / read_root_storage / walk / walk_storage iterated partially, two iterators advanced alternately, version(), Debug formatting of the compound file) x one stream-I/O script of 2-20 calls on up to 2 handles (read, write of 1-5000 bytes and now and then 70-300 KB so that one write-back moves far more than 64 KiB, seek, set_len up to several MiB, flush; buffer 1024 or default) x a generated schedule. Threads are real but run one at a time under a deterministic scheduler driven by the lock-observer hook; the lock is modelled with writer preference (std's policy on Linux) and a thread enters the real lock only when the model grants it. Oracles: no deadlock (no runnable thread while some are blocked), no acquisition while the thread already holds a guard (then the scheduler constructs the deadlocking schedule: I/O thread is run to its next write request), no panic in any thread, every reader result equals the model with each stream length being a length that stream had at an I/O call boundary, I/O results equal the byte-vector model. Non-trivial = the I/O thread requested the write lock while a reader held a read guard and some iterator was advanced >=4 steps (crosses a storage boundary); distinct = distinct case JSON.",
        assumptions: &["lock policy modelled: writer-preferring (library/std/src/sys/sync/rwlock/futex.rs); other policies are not explored", "schedules are sampled, not enumerated; the lock-discipline invariant makes re-entrancy detection schedule-independent"],
        quick_cases: 1500,
        thorough_cases: 20000,
        worker,
        solo,
        hang_cpu_s: 30.0,
        extra: None,
        confirm_known: false,
    }
}

#!/usr/bin/env python3
"""Writes the sub-agent prompts for a seeded-defect round.
usage: make_seed_prompts.py <round-tag> <ID>...   -> /tmp/out<tag>-<ID>/PROMPT.txt (worktree /tmp/wt<tag>-<ID>)
The agent sees only the property text (from properties.jsonl) and its scratch worktree."""
import json, os, sys
tag = sys.argv[1]
props = {json.loads(l)['id']: json.loads(l) for l in open('/verif/properties.jsonl')}
tmpl = open('/verif/tools/seed_prompt.txt').read()
extra = """

Additional guidance for this round: assume the crate is already being checked by randomized model-based tests and fuzzers that compare every public result with a reference model, reopen the file after every step, validate the file structure with an independent checker, corrupt every field of valid files, inject I/O faults at every position (with retries), run under short-count/interrupting backends and on multi-megabyte files, and start from unusual-but-valid foreign file layouts. Prefer defects that such machinery would plausibly MISS unless its generators reach a rare state: e.g. depending on exact sizes or counts (a multiple of a sector or table capacity), on a rarely used public method, trait method or option, on a specific error kind, on a combination of two or three conditions, on state left behind by an earlier failed call, or on a long sequence. Avoid the most obvious candidates (off-by-one in a table capacity, a dropped zero-fill, a swapped comparison): look for something less expected. Still: realistic, compiling, existing tests green, and demonstrable by your demo test.
"""
EXTRA7 = """
Further hint for this round (from the crate's own source, nothing else): earlier rounds concentrated on Directory, Allocator, resize_stream and the Stream buffer. Look elsewhere too: MiniChain / Chain seek+read+write arithmetic, header read/write and its validation, Sector / SectorInit / Sectors (sector offsets, version 3 vs 4 sector sizes, the 4096-byte V4 header padding), the Entries iterator (walk vs read_storage, depth handling), OpenOptions and builder methods, Drop impls, into_inner, trait methods that have default implementations (read_vectored, read_to_string, read_line, seek_relative, stream_position, write_fmt ...), Entry accessors, files at exactly 109/110 FAT sectors or a DIFAT sector boundary, offsets at 2^31 / 2^32, and differences between what `create` leaves in memory and what `open` rebuilds from the file.
"""
EXTRA8 = """
Round-8 note: by now the machinery also runs coverage-guided fuzzing (libFuzzer) over operation histories with the model as oracle, enumerates write faults around FAT/DIFAT-sector boundaries of 7 MB version-3 files (with retries and continued growth), corrupts files compositely (e.g. a file longer than its FAT covers plus a table cell pointing into that tail), opens readers that claim up to 2^64-1 bytes, grows version-4 files past 4 GiB on a sparse backend, and measures line coverage of the crate (about 95 % of src/ is executed by the checks). A defect it would still miss has to hide in a state that takes an unusual *combination* to reach, not merely a large size. Think about: interactions between two features that are each tested alone (e.g. a buffer-size option with a particular seek pattern after a failed call; a reopen in the middle of a particular cycle; metadata setters on an object whose sibling was just removed; strict vs permissive differences that only show for one specific tolerated deviation combined with a later mutation), values that are only special in one format version, and behaviour that depends on the ORDER of earlier operations rather than on the resulting state.
"""
if tag >= '7':
    extra = extra + EXTRA7
if tag >= '8':
    extra = extra + EXTRA8
for pid in sys.argv[2:]:
    p = props[pid]
    text = f"Property {pid}: {p['title']}\n\nStatement: {p['statement']}\n\nQuantified over: {p['quantifier']['text']}\n\nCode anchors (files): {', '.join(p['anchors']['files'])}\n"
    out = f"/tmp/out{tag}-{pid}"
    os.makedirs(out, exist_ok=True)
    t = tmpl.replace('/tmp/wt-@ID@', f'/tmp/wt{tag}-{pid}').replace('/tmp/out-@ID@', out).replace('@PROP@', text).rstrip('\n') + extra
    open(out + '/PROMPT.txt', 'w').write(t)
    print(out + '/PROMPT.txt')

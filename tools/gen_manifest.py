#!/usr/bin/env python3
"""Generates /verif/MANIFEST.json from the table below; validates against the schema when jsonschema is available."""
import json, subprocess, sys
ALL = ["C%02d" % i for i in range(1, 19)]
CHECKS = {
 "C01": dict(text="Generated operation histories (proptest, shrunk as one value) compared step by step with an abstract tree model written from the rustdoc; exploration, not proof: every result, listing order, metadata, length and byte is compared after every step and in full dumps.",
             note="Trusted: the harness model (model.rs, names.rs with a Perl-derived Unicode<=3.0 upper-casing table), the in-memory backend. Held on everything explored.",
             technique="model-based property testing over generated operation histories (proptest), reference-model oracle", ref="4 C01"),
}
def main():
    repo_commits = subprocess.run(["git","-C","/repo","log","--format=%h %s"],capture_output=True,text=True).stdout.splitlines()
    hooks = [l.split()[0] for l in repo_commits if l.split(" ",1)[1].startswith("verif hooks")]
    m = {
      "version": 1,
      "setup_cmd": "cd /verif && ./check setup",
      "hooks": {"guard": "cargo feature verif-hooks (cfb crate; off by default)",
                "enable": "the harness crate depends on cfb by path ../../repo with features=[\"verif-hooks\"]; every ./check run rebuilds it from /repo's working tree",
                "baseline_off_cmd": "cd /repo && cargo test --workspace --no-fail-fast --offline",
                "source_commits": hooks, "add_only": True},
      "engines": [{"name": "cfbverif", "path": "/verif/harness", "serves_properties": sorted(CHECKS.keys()),
                   "kind_free_text": "Rust binary: proptest-driven exploration in worker subprocesses, independent parser/checker, fault-injecting backends, deterministic scheduler; libFuzzer targets under harness/fuzz"}],
      "checks": [], "not_applicable": [],
      "notes": "exit 0 = held on everything explored (KNOWN-FINDING lines allowed), 1 = VIOLATION, 2 = inconclusive/infrastructure. VERIF_SEED selects the seed (0 is remapped to 1). See DESIGN.md.",
    }
    for pid in ALL:
        if pid in CHECKS:
            c = CHECKS[pid]
            m["checks"].append({"property_id": pid, "quick_cmd": f"./check {pid} quick", "thorough_cmd": f"./check {pid} thorough",
              "evidence_file": f"/verif/evidence/{pid}.json", "replay_cmd_template": f"./check replay {pid} {{path}}", "engine": "cfbverif",
              "level_claimed": {"category": c.get("cat","exploration"), "text": c["text"], "design_ref": "DESIGN.md section " + c["ref"]},
              "level_note": c["note"], "technique": c["technique"]})
        else:
            m["not_applicable"].append({"property_id": pid, "reason": "check not built yet in this session (planned: property-based exploration, see DESIGN.md section 4); will be claimed once its check is green"})
    json.dump(m, open("/verif/MANIFEST.json","w"), indent=1)
    try:
        import jsonschema
        jsonschema.validate(m, json.load(open("/root/.vp/MANIFEST.schema.json"))); print("manifest valid,", len(m["checks"]), "checks")
    except ImportError:
        print("written (jsonschema unavailable)")
main()

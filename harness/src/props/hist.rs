//! Shared plumbing for history-engine properties.

use crate::engine::{Oracles, Stats};
use crate::ops::*;
use crate::run::run_case;
use crate::runner::*;

/// Runs a case and builds the report; `nontrivial` decides from the stats and the case.
pub fn history_report(case: &Case, o: Oracles, nontrivial: fn(&Stats, &Case) -> bool) -> CaseReport {
    let out = run_case(case, o, None);
    let s = &out.stats;
    let mut classes: Vec<String> = Vec::new();
    for (k, _) in s.classes.iter() {
        classes.push(k.clone());
    }
    if s.refusals > 0 {
        classes.push("has_refusal".into());
    }
    if matches!(case.start, Start::Foreign { .. }) {
        classes.push("start_foreign".into());
    }
    if matches!(case.start, Start::Deviant { .. }) {
        classes.push("start_deviant".into());
    }
    classes.push(format!("version_{}", case.version));
    if let Some(m) = case.max_buf {
        classes.push(format!("max_buf_{}", m));
    }
    if s.boundaries_checked > 0 {
        classes.push("boundaries_checked".into());
    }
    if s.boundaries_skipped_dirty > 0 {
        classes.push("boundaries_skipped_dirty".into());
    }
    let nt = out.result.is_ok() && nontrivial(s, case);
    CaseReport { fail: out.result.err(), nontrivial: nt, classes, excluded: s.excluded, evaluations: 1, nontrivial_items: vec![], trace: out.trace }
}

pub fn reopen_then_mutation(case: &Case) -> bool {
    let mut seen = false;
    for op in case.ops.iter() {
        if matches!(op, Op::Reopen { .. }) {
            seen = true;
        } else if seen && op.is_mutation() {
            return true;
        }
    }
    false
}

/// Properties whose workers run `Case` histories and that `fz_hist` can serve.
pub const FUZZ_PROPS: &[&str] = &["C01", "C02", "C03", "C07", "C10"];

/// Op weights, sizes and name-pool bounds under which `fz_hist` decodes bytes for `prop`:
/// the profile of that property's own workers (quick tier).
pub fn fuzz_profile(prop: &str) -> (crate::gen::Profile, bool) {
    use crate::gen::Profile;
    use crate::props::*;
    match prop {
        "C01" => (Profile::c01(), crate::synth::AVAILABLE),
        "C07" => (c07::profile(Tier::Quick), true),
        "C10" => (c10::profile(Tier::Quick), crate::synth::AVAILABLE),
        _ => (c02::profile(Tier::Quick), crate::synth::AVAILABLE),
    }
}

/// What `fz_hist` runs on a decoded history: the property's own case runner and oracles.
pub fn fuzz_report(prop: &str, case: &Case) -> CaseReport {
    use crate::props::*;
    match prop {
        "C01" => c01::report(case, c01::oracles()),
        "C03" => c03::report(case),
        "C07" => c07::report(case),
        "C10" => c10::report(case),
        _ => c02::report(case),
    }
}

pub mod c01;

use crate::runner::PropDef;

pub fn all() -> Vec<PropDef> {
    vec![c01::def()]
}

pub fn find(id: &str) -> Option<PropDef> {
    all().into_iter().find(|d| d.id == id)
}

#!/bin/bash
# usage: tools/eval_round.sh <round-tag> <ID>...   evaluates /tmp/out<tag>-<ID>/patch{1,2}.diff
# (confirmation + quick checks of the property and its neighbours) into /verif/seeded/<ID>-r<tag>-seed<k>
cd /verif
tag="$1"; shift
declare -A EXTRA=( [C01]="C01 C02 C03" [C02]="C02 C03 C04" [C03]="C03 C02 C04" [C04]="C04 C16 C03" [C05]="C05 C11" [C06]="C06 C18 C08" [C07]="C07 C03 C10" [C08]="C08 C13 C04" [C09]="C09 C01 C10" [C10]="C10 C09 C01" [C11]="C11 C05 C03" [C12]="C12" [C13]="C13 C12" [C14]="C14" [C15]="C15 C03" [C16]="C16 C04" [C17]="C17 C18 C04" [C18]="C18 C06" )
for id in "$@"; do
  for k in 1 2; do
    [ -f /tmp/out$tag-$id/patch$k.diff ] || continue
    echo "=== $id r$tag #$k"
    tools/eval_seeded.sh /tmp/out$tag-$id $k "$id-r$tag-seed$k" ${EXTRA[$id]} 2>&1 | tail -8 | cut -c1-260
  done
done

//! Name oracle (DESIGN 3.2): validity, CFB order on upper-cased UTF-16 code units with an
//! upper-casing table that does not come from the library, case variants, and the closed
//! alphabet names are generated from.

use crate::upper_table::{SELF_UPPER_LOWERCASE, UPPER_TABLE};
use std::cmp::Ordering;

pub fn units(name: &str) -> Vec<u16> {
    name.encode_utf16().collect()
}

pub fn upper_unit(u: u16) -> u16 {
    match UPPER_TABLE.binary_search_by_key(&u, |&(l, _)| l) {
        Ok(i) => UPPER_TABLE[i].1,
        Err(_) => u,
    }
}

/// MS-CFB 2.6.1: 1..=31 UTF-16 units, none of / \ : !
pub fn is_valid_name(name: &str) -> bool {
    let n = name.encode_utf16().count();
    if n == 0 || n > 31 {
        return false;
    }
    !name.chars().any(|c| matches!(c, '/' | '\\' | ':' | '!'))
}

/// MS-CFB 2.6.4: shorter first, then unit-wise on upper-cased code units.
pub fn cfb_cmp(a: &str, b: &str) -> Ordering {
    let ua = units(a);
    let ub = units(b);
    match ua.len().cmp(&ub.len()) {
        Ordering::Equal => {}
        o => return o,
    }
    for (x, y) in ua.iter().zip(ub.iter()) {
        match upper_unit(*x).cmp(&upper_unit(*y)) {
            Ordering::Equal => {}
            o => return o,
        }
    }
    Ordering::Equal
}

pub fn cfb_eq(a: &str, b: &str) -> bool {
    cfb_cmp(a, b) == Ordering::Equal
}

/// true when the order of a and b (same length) is decided at a position where at least
/// one of the two units is changed by upper-casing
pub fn order_decided_by_casing(a: &str, b: &str) -> bool {
    let ua = units(a);
    let ub = units(b);
    if ua.len() != ub.len() {
        return false;
    }
    for (x, y) in ua.iter().zip(ub.iter()) {
        let (ux, uy) = (upper_unit(*x), upper_unit(*y));
        if ux != uy {
            return ux != *x || uy != *y;
        }
    }
    false
}

/// All characters (as units) sharing an upper-case image with `u`, excluding `u` itself.
fn case_partners(u: u16) -> Vec<u16> {
    let up = upper_unit(u);
    let mut v = Vec::new();
    if up != u {
        v.push(up);
    }
    for &(l, x) in UPPER_TABLE.iter() {
        if x == up && l != u {
            v.push(l);
        }
    }
    v
}

/// A letter-case variant of `name`: unit i is replaced by a case partner when bit i of
/// `mask` is set (and a partner exists); `pick` selects among several partners.
pub fn case_variant(name: &str, mask: u32, pick: u8) -> String {
    let us = units(name);
    let mut out = Vec::with_capacity(us.len());
    for (i, &u) in us.iter().enumerate() {
        if (0xD800..0xE000).contains(&u) {
            out.push(u);
            continue;
        }
        if mask >> (i % 32) & 1 == 1 {
            let p = case_partners(u);
            if !p.is_empty() {
                out.push(p[(pick as usize + i) % p.len()]);
                continue;
            }
        }
        out.push(u);
    }
    String::from_utf16(&out).unwrap_or_else(|_| name.to_string())
}

/// The closed alphabet, in groups (index = group).  Every character is either in the
/// domain/range of UPPER_TABLE, a listed self-uppercasing lower-case letter, or caseless in
/// every Unicode version.
pub struct Alphabet {
    pub ascii_letters: Vec<char>,
    pub ascii_other: Vec<char>,
    pub cased_bmp: Vec<char>,
    pub exceptional: Vec<char>,
    pub caseless_bmp: Vec<char>,
    pub supplementary: Vec<char>,
    pub forbidden: Vec<char>,
}

pub fn alphabet() -> Alphabet {
    let mut cased = Vec::new();
    for &(l, u) in UPPER_TABLE.iter() {
        if l >= 0x80 {
            if let Some(c) = char::from_u32(l as u32) {
                cased.push(c);
            }
            if let Some(c) = char::from_u32(u as u32) {
                if u >= 0x80 {
                    cased.push(c);
                }
            }
        }
    }
    cased.sort();
    cased.dedup();
    let mut exceptional: Vec<char> = vec![
        'ß', 'ŉ', 'ǰ', 'ı', 'ſ', 'µ', 'ÿ', 'ǅ', 'ǈ', 'ǋ', 'ᾳ', 'ῃ', 'ῳ', 'ΐ', 'ΰ', 'ẖ', 'ẛ', 'ς', 'ϐ',
        'ϑ', 'ϕ', 'ϖ', 'ϰ', 'ϱ', 'ι', 'İ', 'K', 'Å', 'Ω',
    ];
    for &u in SELF_UPPER_LOWERCASE.iter().take(40) {
        if let Some(c) = char::from_u32(u as u32) {
            exceptional.push(c);
        }
    }
    exceptional.sort();
    exceptional.dedup();
    Alphabet {
        ascii_letters: ('a'..='z').chain('A'..='Z').collect(),
        ascii_other: "0123456789 ._-~@#$%^&()[]{}+=,;'`\u{7f}".chars().collect(),
        cased_bmp: cased,
        exceptional,
        caseless_bmp: vec![
            '\u{00D7}', '\u{00F7}', '\u{05D0}', '\u{0660}', '\u{3042}', '\u{4E00}', '\u{9FA5}',
            '\u{AC00}', '\u{E000}', '\u{F8FF}', '\u{FFFD}', '\u{FFFF}', '\u{2028}', '\u{00A0}',
            '\u{0301}',
        ],
        supplementary: vec![
            '\u{10000}', '\u{1F600}', '\u{20000}', '\u{10FFFF}', '\u{1D11E}', '\u{E0001}',
        ],
        forbidden: vec!['\\', ':', '!'],
    }
}

#[cfg(test)]
mod tests {
    use super::*;
    #[test]
    fn basics() {
        assert_eq!(cfb_cmp("b", "AA"), Ordering::Less);
        assert_eq!(cfb_cmp("a", "A"), Ordering::Equal);
        assert_eq!(cfb_cmp("\u{E000}\u{E000}", "\u{1F600}"), Ordering::Greater);
        assert!(is_valid_name("x"));
        assert!(!is_valid_name("a:b"));
    }
}

#!/usr/bin/env python3
"""Generates /verif/MANIFEST.json from the table below; validates against the schema when jsonschema is available."""
import json, subprocess, sys
ALL = ["C%02d" % i for i in range(1, 19)]
CHECKS = {
 "C01": dict(ref="4 C01", technique="model-based property testing over generated operation histories (proptest), reference-model oracle; coverage-guided fuzzing of operation histories (libFuzzer target fz_hist, same oracle) in the thorough tier",
   text="Generated operation histories (proptest, shrunk as one value) are run on the library and on an abstract tree model written from the rustdoc; every result, error kind, listing order, metadata value, length and byte is compared after every step, in full dumps and after reopening. Exploration: held on everything explored, no proof of absence. Thorough tier: a libFuzzer campaign (fz_hist) mutates byte-encoded histories (one 16-byte record per operation) under coverage feedback from the library and runs each through the same case runner and oracle; artifacts are decoded into ordinary replay cases.",
   note="Trusted: the harness model (model.rs), the name oracle (names.rs, upper-casing table extracted from Perl's Unicode database, Unicode<=3.0 mappings only), the in-memory backend."),
 "C02": dict(ref="4 C02", technique="model-based property testing with snapshot-and-reopen oracle at every operation boundary; coverage-guided fuzzing of operation histories (libFuzzer target fz_hist, same oracle) in the thorough tier",
   text="Same histories with stream-handle operations; at every operation boundary without unflushed handle data the raw backend bytes (no flush, no into_inner) are reopened in permissive and strict mode and compared with the model, and regularly the reopened object replaces the live one so that continuing on it is judged by the model too. Thorough tier: a libFuzzer campaign (fz_hist) mutates byte-encoded histories (one 16-byte record per operation) under coverage feedback from the library and runs each through the same case runner and oracle; artifacts are decoded into ordinary replay cases.",
   note="Trusted: the harness's tracking of 'possibly dirty' handles; model as in C01."),
 "C03": dict(ref="4 C03 and 3.3", technique="property-based testing with an independent format checker as oracle (invariant over the history); coverage-guided fuzzing of operation histories (libFuzzer target fz_hist, same oracle) in the thorough tier",
   text="An MS-CFB parser/checker written from the specification (no code shared with the crate) judges the raw byte image after every operation of generated histories, including a large-file profile reaching several FAT sectors, DIFAT sectors, several directory and MiniFAT sectors. Thorough tier: a libFuzzer campaign (fz_hist) mutates byte-encoded histories (one 16-byte record per operation) under coverage feedback from the library and runs each through the same case runner and oracle; artifacts are decoded into ordinary replay cases.",
   note="Trusted: refparse.rs (core rules R01-R31 transcribe the clauses of the statement; advisory rules never fail); validated against the synthesizer's images and negative images."),
 "C04": dict(ref="4 C04 and 3.4", technique="property-based round-trip: independent writer (layout synthesizer) -> library reader, then model-based histories on the foreign file",
   text="An independent writer encodes generated logical contents in generated legal physical layouts (permuted/fragmented sectors and mini sectors, permuted directory slots with gaps, balanced red-black trees, DIFAT sectors); the library must open them in both modes and expose exactly the encoded content, and short mutation histories on them are judged by the C01-C03 oracles.",
   note="Trusted: synth.rs and refparse.rs (both harness code, cross-checking each other); 'spec-valid' is MS-CFB as read by the harness author."),
 "C05": dict(ref="4 C05, 2.5, 3.6", technique="structured-corruption property testing (field-level corruption catalogue over valid images) with panic/CPU/allocation oracles; coverage-guided fuzzing (libFuzzer) in the thorough tier",
   text="Valid images (foreign layouts and library-written) are damaged by 1-4 generated field-level corruptions; both open modes and a generated read-only script must return without panic, within a CPU budget and within a peak-allocation bound linear in the input length (counting allocator). Worker crashes and hangs are attributed to the case in flight and confirmed alone under rlimits. Composite corruption: file extended beyond FAT coverage with a table cell or chain head pointing into the uncovered tail. Scenario: readers claiming up to 2^64-1 bytes (valid small prefix), each probed alone in a child process under CPU and address-space limits, peak heap bounded.",
   note="Covers every field with every value class singly and in small combinations; violations needing many coordinated corruptions are unlikely to be reached. Memory bound constant derived in DESIGN.md 2.5."),
 "C06": dict(ref="4 C06", technique="model-based property testing of call sequences against a Vec<u8>+cursor model, repeated across all buffer-size/version configurations",
   text="Generated call sequences on one stream handle are executed under 10 max_buffer_size settings x 2 versions and every return value is compared with a byte-vector-and-cursor model that does not depend on the configuration.",
   note="Trusted: the cursor model in engine_handles.rs; read may return any non-empty prefix."),
 "C07": dict(ref="4 C07", technique="model-based property testing of interleaved handle and structural operations (stateful generation); coverage-guided fuzzing of operation histories (libFuzzer target fz_hist, same oracle) in the thorough tier",
   text="Histories interleave operations through several open handles with creations, removals and resizes of other entries; the whole tree, all metadata and all stream contents are compared with a model in which a handle operation touches only its own stream, plus the independent checker for damage outside the API's reach. Thorough tier: a libFuzzer campaign (fz_hist) mutates byte-encoded histories (one 16-byte record per operation) under coverage feedback from the library and runs each through the same case runner and oracle; artifacts are decoded into ordinary replay cases.",
   note="Trusted: model; the generator never removes/overwrites a stream with an open handle and never opens two handles on one stream."),
 "C08": dict(ref="4 C08", technique="property-based testing with a zero-fill oracle and a physical 'ever non-zero' shadow bitmap to target reuse",
   text="Histories of writes, shrinks, grows and removals; after each growing set_len the gained range must read zero through the same handle, a fresh handle and after reopening; non-trivial cases are those where the gained range physically overlaps bytes that were non-zero earlier.",
   note="Trusted: independent parser for the physical mapping; growth via write() is covered by C06."),
 "C09": dict(ref="4 C09 and 3.2", technique="property-based testing with independent name validator, UTF-16 shortlex comparator and path normaliser as oracles",
   text="Unicode names from a closed alphabet (incl. exceptional upper-casing and supplementary-plane characters), case variants, path spellings and invalid names are exercised in random insert/remove orders; validity, case-insensitive lookup, listing order and path normalisation are judged by oracles that share nothing with the crate.",
   note="Trusted: names.rs; alphabet restricted to characters whose simple upper-casing is stable from Unicode 3.0 to 14."),
 "C10": dict(ref="4 C10", technique="model-based property testing with byte-identity oracle on every refused call; coverage-guided fuzzing of operation histories (libFuzzer target fz_hist, same oracle) in the thorough tier",
   text="Histories with about half of the calls aimed at refusals; every call that returns NotFound/AlreadyExists/InvalidInput must leave the backend bytes identical and the model unchanged, so all later results are compared as if the call had not been made. Thorough tier: a libFuzzer campaign (fz_hist) mutates byte-encoded histories (one 16-byte record per operation) under coverage feedback from the library and runs each through the same case runner and oracle; artifacts are decoded into ordinary replay cases.",
   note="Trusted: model and refusal sets of DESIGN.md 3.1."),
 "C11": dict(ref="4 C11, 3.6", technique="structured-corruption property testing restricted to fields permissive open does not validate, followed by generated mutation histories (model-less interpreter); coverage-guided fuzzing in the thorough tier",
   text="Valid images are damaged in the fields that permissive open does not check (stream/root start sectors and sizes, chain cells, MiniFAT cells, cycles) and kept if open accepts; then 1-8 generated mutating operations chosen from what the library itself lists must all return Ok or Err - no panic (debug assertions and overflow checks on), no hang (CPU budget). The composite corruption 'chain head in a sector beyond FAT coverage' is drawn too.",
   note="Quick tier on the checked build (assertions on); thorough also on the release-semantics build."),
 "C12": dict(ref="4 C12", cat="fault_enumeration", technique="exhaustive single-fault enumeration (plus pairs) over generated read workloads, differential against the fault-free run and the true content",
   text="For generated read-only workloads every position k of the underlying read/seek call sequence gets a run with that call failing (all k, plus pairs); each API call must return Err only when a fault fired during it, otherwise its fault-free value, and bytes delivered must equal the true content at the position the handle reports, also on retries.",
   note="Exhaustive over single fault positions per workload; workloads and pairs are sampled. Trusted: model, synthesizer (images), fault backend."),
 "C13": dict(ref="4 C13", cat="fault_enumeration", technique="exhaustive single-fault enumeration over generated mutating workloads with read-back oracle after every successful flush",
   text="For generated mutating workloads every position k of the underlying write/seek/flush sequence gets a run with that call failing; the API call in progress must return Err, nothing may panic or hang afterwards, and whenever Stream::flush returns Ok (first try or retry) a fresh handle must read back every byte accepted by earlier writes on that handle. Scenario step: a version-3 stream grown to just below the capacity of 109 FAT sectors, then written across the 110th-112th FAT sector (first DIFAT sector) with a fault at the library's write-side calls around every header update (thorough: at every one), each followed by retry and continued growth.",
   note="Exhaustive over single fault positions per workload; workloads are sampled; faults inside Drop are exempt as documented."),
 "C14": dict(ref="4 C14, 2.7", technique="schedule-controlled concurrency testing: generated thread scripts x generated schedules under a deterministic scheduler over a lock-observer hook, with a lock-discipline invariant and a model-based linearisability check",
   text="Reader-thread scripts, a stream-I/O script and a schedule are generated; real threads run one at a time under a scheduler that owns every lock event (hook behind cargo feature verif-hooks) and models std's writer-preferring RwLock, so a deadlock is decided without any clock and re-entrant acquisition is detected independently of the schedule (the scheduler then constructs the deadlocking schedule). Reader results are compared with the model at I/O call boundaries.",
   note="Schedules are sampled; lock policy is the modelled one (Linux/std). Hook: instrumented RwLock wrapper, additive, feature-gated."),
 "C15": dict(ref="4 C15", technique="metamorphic property testing: repeated net-zero cycles, file size must not change from repetition 2 on",
   text="Prefix histories followed by 7 repetitions of generated cycles that the model proves net-zero; the image length after repetition 2 must equal the length after every later repetition. Growth that settles because a never-shrunk container chain first grew in repetition 2 is a listed known finding; growth that goes on is a violation.",
   note="Known findings listed in known_findings.txt (C15). Trusted: model for the net-zero test, parser for chain lengths."),
 "C16": dict(ref="4 C16", technique="differential property testing (strict vs permissive) on mutated images, plus deviation injectors with the undamaged model as oracle",
   text="Direction A: mutated valid images that strict open accepts must be accepted by permissive open with an equal dump. Direction B: each of 23 documented deviations, injected singly and combined at generated places into library-written and synthesized images, must be accepted by permissive open with the undamaged content and rejected by strict open.",
   note="Known finding: zero-padded DIFAT combined with an oversized header FAT count (excluded by construction, confirmed by two saved cases)."),
 "C17": dict(ref="4 C17", technique="model-based property testing with an exact integer FILETIME model",
   text="Histories dominated by metadata setters with extreme and random CLSIDs, state words and SystemTimes on all object kinds across several directory sectors and reopen; results compared with an exact saturating integer model.",
   note="touch on the root: either documented or coded behaviour accepted."),
 "C18": dict(ref="4 C18", technique="differential property testing across runs, backends (memory, std::fs::File, short-count/Interrupted backends), buffer sizes and versions",
   text="Each generated history is executed 46+ times: both versions x 5 buffer sizes x {memory twice, real file, choppy backends}; all results are compared with the model in every run and within a (version, buffer size) class the final images must be byte-identical.",
   note="Interrupted never injected twice in a row; storage timestamps pinned through the public setters."),
}
def main():
    repo_commits = subprocess.run(["git","-C","/repo","log","--format=%h %s"],capture_output=True,text=True).stdout.splitlines()
    hooks = [l.split()[0] for l in repo_commits if l.split(" ",1)[1].startswith("verif hooks")]
    m = {
      "version": 1,
      "setup_cmd": "cd /verif && ./check setup",
      "hooks": {"guard": "cargo feature verif-hooks (cfb crate; off by default)",
                "enable": "the harness crate depends on cfb by path ../../repo with features=[\"verif-hooks\"]; every ./check run rebuilds it from /repo's working tree",
                "baseline_off_cmd": "cd /repo && cargo test --workspace --no-fail-fast --offline",
                "source_commits": hooks, "add_only": True},
      "engines": [{"name": "cfbverif", "path": "/verif/harness", "serves_properties": sorted(CHECKS.keys()),
                   "kind_free_text": "Rust binary: proptest-driven exploration in worker subprocesses, independent parser/checker, fault-injecting backends, deterministic scheduler; libFuzzer targets under harness/fuzz"}],
      "checks": [], "not_applicable": [],
      "notes": "exit 0 = held on everything explored (KNOWN-FINDING lines allowed), 1 = VIOLATION, 2 = inconclusive/infrastructure. VERIF_SEED selects the seed (0 is remapped to 1). See DESIGN.md.",
    }
    for pid in ALL:
        if pid in CHECKS:
            c = CHECKS[pid]
            m["checks"].append({"property_id": pid, "quick_cmd": f"./check {pid} quick", "thorough_cmd": f"./check {pid} thorough",
              "evidence_file": f"/verif/evidence/{pid}.json", "replay_cmd_template": f"./check replay {pid} {{path}}", "engine": "cfbverif",
              "level_claimed": {"category": c.get("cat","exploration"), "text": c["text"], "design_ref": "DESIGN.md section " + c["ref"]},
              "level_note": c["note"], "technique": c["technique"]})
        else:
            m["not_applicable"].append({"property_id": pid, "reason": "check not built yet in this session (planned: property-based exploration, see DESIGN.md section 4); will be claimed once its check is green"})
    json.dump(m, open("/verif/MANIFEST.json","w"), indent=1)
    try:
        import jsonschema
        jsonschema.validate(m, json.load(open("/root/.vp/MANIFEST.schema.json"))); print("manifest valid,", len(m["checks"]), "checks")
    except ImportError:
        print("written (jsonschema unavailable)")
main()

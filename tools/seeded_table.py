#!/usr/bin/env python3
"""usage: tools/seeded_table.py <round>   prints the DESIGN.md 13.1 table rows of /verif/seeded/*-r<round>-seed*"""
import json, glob, os, sys
r = sys.argv[1]
for d in sorted(glob.glob(f'/verif/seeded/*-r{r}-seed*')):
    m = json.load(open(d + '/meta.json'))
    caught = ', '.join(m.get('caught_by') or []) or '-'
    if m.get('table_remark'):
        remark = m['table_remark']
    elif m.get('outside_documented_domain'):
        remark = 'needs an input outside the documented domain; deliberately not reported (see meta.json)'
    elif m.get('initially_missed'):
        remark = 'missed at first; check strengthened (see meta.json)'
    elif m['property'] not in (m.get('caught_by') or []):
        remark = 'reported by a neighbouring check (see meta.json)'
    else:
        remark = ''
    print(f"| seeded/{os.path.basename(d)} | {caught} | {remark} |")

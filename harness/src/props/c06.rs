//! C06 - a stream handle behaves as a seekable byte array for every buffer size.

use crate::engine::Oracles;
use crate::gen::*;
use crate::ops::*;
use crate::run::run_case;
use crate::runner::*;
use proptest::collection::vec;
use proptest::prelude::*;
use serde::{Deserialize, Serialize};
use serde_json::Value;

#[derive(Clone, Debug, Serialize, Deserialize)]
pub struct C06Case {
    pub init: DataSpec,
    pub ops: Vec<Op>,
    /// thorough: also run with a multi-MiB stream under the default buffer
    pub big: bool,
}

pub const BUFS: &[Option<u32>] = &[Some(0), Some(1), Some(1023), Some(1024), Some(1025), Some(1500), Some(4096), Some(5000), Some(65536), Some(u32::MAX), Some(u32::MAX - 1023), None];

fn one_handle_op(max: u32) -> BoxedStrategy<Op> {
    // sizes around the buffer capacities 1024 / 4096, 64, sector sizes
    let n = prop_oneof![
        4 => size_strategy(max),
        3 => proptest::sample::select(vec![0u32, 1, 7, 64, 100, 511, 512, 1000, 1023, 1024, 1025, 1499, 1500, 1501, 2048, 3000, 4095, 4096, 4097, 4999, 5000, 5001, 8191]),
    ];
    let data = (n.clone(), any::<u8>()).prop_map(|(len, seed)| DataSpec { len, seed });
    prop_oneof![
        6 => n.clone().prop_map(|n| Op::HRead { slot: 0, n }),
        2 => n.clone().prop_map(|n| Op::HReadExact { slot: 0, n }),
        4 => any::<u16>().prop_map(|frac| Op::HFillConsume { slot: 0, frac }),
        6 => data.clone().prop_map(|data| Op::HWrite { slot: 0, data }),
        3 => data.clone().prop_map(|data| Op::HWriteAll { slot: 0, data }),
        8 => seek_strategy().prop_map(|s| Op::HSeek { slot: 0, s }),
        3 => len_spec(max).prop_map(|len| Op::HSetLen { slot: 0, len }),
        2 => Just(Op::HFlush { slot: 0 }),
        1 => Just(Op::HLen { slot: 0 }),
        2 => Just(Op::HPos { slot: 0 }),
        1 => Just(Op::HReadToEnd { slot: 0 }),
        2 => (data.clone(), any::<u16>(), any::<u16>()).prop_map(|(data, a, b)| Op::HWriteV { slot: 0, data, a, b }),
        1 => (n.clone(), n.clone()).prop_map(|(n1, n2)| Op::HReadV { slot: 0, n1, n2 }),
        1 => any::<u8>().prop_map(|byte| Op::HReadUntil { slot: 0, byte }),
        1 => Just(Op::HRewind { slot: 0 }),
        1 => Just(Op::HClose { slot: 0 }),
    ]
    .boxed()
}

fn strategy(tier: Tier) -> BoxedStrategy<C06Case> {
    let max = 12288;
    let big = if tier == Tier::Thorough { prop_oneof![15 => Just(false), 1 => Just(true)].boxed() } else { Just(false).boxed() };
    (data_strategy(max), vec(one_handle_op(max), 1..=80), big).prop_map(|(init, ops, big)| C06Case { init, ops, big }).boxed()
}

fn oracles() -> Oracles {
    Oracles { count_io: true, final_reopen: true, ..Oracles::default() }
}

fn report(c: &C06Case) -> CaseReport {
    let mut rep = CaseReport { evaluations: 0, ..CaseReport::default() };
    let mut ops = vec![Op::CreateStream { p: PathSpec::Raw("/s".into()), data: c.init }, Op::HOpen { slot: 0, p: PathSpec::Raw("/s".into()) }];
    if c.big {
        // a 3 MiB stream so that the default 1 MiB window is exceeded
        ops[0] = Op::CreateStream { p: PathSpec::Raw("/s".into()), data: DataSpec { len: 3 * 1024 * 1024 + c.init.len, seed: c.init.seed } };
    }
    ops.extend(c.ops.iter().cloned());
    let mut any_nontrivial = false;
    for &version in &[3u8, 4u8] {
        for &mb in BUFS.iter() {
            if c.big && mb.is_some() && mb != Some(65536) {
                continue;
            }
            let case = Case { version, max_buf: mb, start: Start::Fresh, pool: vec!["s".into()], ops: ops.clone() };
            let out = run_case(&case, oracles(), None);
            rep.evaluations += 1;
            if out.stats.classes.get("writeback_during_op").copied().unwrap_or(0) >= 2 && out.stats.has("read_own_writes") {
                any_nontrivial = true;
            }
            for k in ["writeback_during_op", "read_own_writes", "refused:h_seek:out_of_range", "grow", "shrink", "cross_cutoff_up", "cross_cutoff_down"] {
                if out.stats.has(k) && !rep.classes.iter().any(|c| c == k) {
                    rep.classes.push(k.to_string());
                }
            }
            if let Err(mut f) = out.result {
                f.detail = format!("[version {} max_buffer_size {:?}] {}", version, mb, f.detail);
                rep.fail = Some(f);
                rep.trace = out.trace;
                return rep;
            }
        }
    }
    if c.big {
        rep.classes.push("big_stream_default_buffer".into());
    }
    rep.nontrivial = any_nontrivial;
    rep
}

fn worker(ctx: &Ctx) -> WorkerResult {
    run_worker(ctx, strategy(ctx.tier), report)
}

fn solo(v: &Value) -> Result<CaseReport, String> {
    run_solo(v, report)
}

/// Offsets beyond 2^31 and 2^32 through one handle (write_all, seek, read_exact, set_len on a
/// stream of 4 GiB + 9 MiB; sparse backend).
fn beyond_4gib(_ctx: &Ctx, ev: &mut Value) -> Option<Violation> {
    match crate::props::scenarios::grow_beyond_4gib() {
        Ok(n) => {
            ev["coverage"]["grow_beyond_4gib_steps"] = serde_json::json!(n);
            None
        }
        Err(v) => Some(v),
    }
}

pub fn def() -> PropDef {
    PropDef {
        id: "C06",
        level: "exploration",
        rule: "one stream (initial length from the boundary set), one handle, 1-80 generated calls (read, read_exact, fill_buf+consume, write honouring the returned count, write_all, seek incl. i64/u64 extremes, set_len, flush, len, stream_position, read_to_end into an empty or a non-empty vector, read_to_string, read_until / read_line / skip_until, write_fmt, read_vectored, write_vectored, rewind, seek_relative, close+reopen of the handle); every call sequence is run under max_buffer_size in {0,1,1023,1024,1025,1500,4096,5000,65536,usize::MAX,usize::MAX-1023,default} x {V3,V4} (24 executions per case, counted as evaluations) and every return value is compared with a Vec<u8>+cursor model that does not depend on the configuration, then fresh handle + reopen read-back. Scenario step: a stream made 4 GiB + 9 MiB long by set_len on a sparse backend, blocks written and read back where the stream offset and the file offset pass 2^31 and 2^32. Non-trivial = in some configuration the buffer window was written back >=2 times during non-flush calls while dirty (seen as underlying writes by the counting backend) and a read returned bytes written earlier through the same handle; distinct = distinct case JSON.",
        assumptions: &["read may return any non-empty prefix of the remaining bytes (std Read contract); position after a failed read_exact is resynchronised from stream_position()"],
        quick_cases: 500,
        thorough_cases: 6000,
        worker,
        solo,
        hang_cpu_s: 60.0,
        extra: Some(beyond_4gib),
        confirm_known: false,
    }
}

//! I/O backends owned by the harness.  One concrete type (`Io`) so that the
//! library is instantiated once: an in-memory byte vector shared through an
//! `Arc<Mutex<..>>` (snapshots at any time, no flush, no into_inner) with an
//! optional controller that counts calls, injects faults and chops transfers.

use std::io::{self, Read, Seek, SeekFrom, Write};
use std::sync::{Arc, Mutex};

#[derive(Clone, Copy, Debug, PartialEq, Eq)]
pub enum CallKind {
    Read,
    Write,
    Seek,
    Flush,
}

#[derive(Clone, Copy, Debug, PartialEq, Eq)]
pub enum FaultDomain {
    /// count read + seek calls (C12)
    ReadSide,
    /// count write + seek + flush calls (C13)
    WriteSide,
}

#[derive(Default, Debug, Clone)]
pub struct Counters {
    pub reads: u64,
    pub writes: u64,
    pub seeks: u64,
    pub flushes: u64,
    pub short_reads: u64,
    pub short_writes: u64,
    pub interrupts: u64,
    pub faults_fired: u64,
}

#[derive(Debug)]
pub struct Ctl {
    pub counters: Counters,
    /// sequence number in the selected fault domain
    pub domain: Option<FaultDomain>,
    pub domain_seq: u64,
    /// positions (in domain_seq numbering) at which the call fails
    pub fault_at: Vec<u64>,
    pub fault_kind: io::ErrorKind,
    pub faults_enabled: bool,
    /// a failing read/seek/write still moves the position (and a failing write may have
    /// written a prefix): the position after an error is unspecified
    pub fault_side_effects: bool,
    /// label of the API call in progress (set by the harness)
    pub api_call: u64,
    /// (api_call, domain_seq, call kind) of every fault fired
    pub fired: Vec<(u64, u64, CallKind)>,
    /// chop plan: bytes consumed cyclically; None = no chopping
    pub chop: Option<Vec<u8>>,
    pub chop_pos: usize,
    /// the previous chopped call on this kind was an Interrupted (never two in a row,
    /// so that retry loops make progress)
    pub last_interrupted: bool,
    /// an underlying write was attempted after the last successful underlying flush
    pub dirty_since_flush: bool,
    /// record (no faults needed): domain positions at which a fault could fire (calls made
    /// while faults are enabled, i.e. by the library and not by the harness's own read-backs)
    pub record_live: bool,
    pub live_seqs: Vec<u64>,
    /// ... and those among them that are writes into the header sector (offset < 512): the
    /// moments at which a table grows or moves
    pub header_write_seqs: Vec<u64>,
}

impl Default for Ctl {
    fn default() -> Self {
        Ctl {
            counters: Counters::default(),
            domain: None,
            domain_seq: 0,
            fault_at: Vec::new(),
            fault_kind: io::ErrorKind::Other,
            faults_enabled: false,
            fault_side_effects: false,
            api_call: 0,
            fired: Vec::new(),
            chop: None,
            chop_pos: 0,
            last_interrupted: false,
            dirty_since_flush: false,
            record_live: false,
            live_seqs: Vec::new(),
            header_write_seqs: Vec::new(),
        }
    }
}

impl Ctl {
    fn in_domain(&self, kind: CallKind) -> bool {
        match self.domain {
            None => false,
            Some(FaultDomain::ReadSide) => matches!(kind, CallKind::Read | CallKind::Seek),
            Some(FaultDomain::WriteSide) => {
                matches!(kind, CallKind::Write | CallKind::Seek | CallKind::Flush)
            }
        }
    }

    /// Returns Some(err) if this call must fail.
    fn tick(&mut self, kind: CallKind) -> Option<io::Error> {
        match kind {
            CallKind::Read => self.counters.reads += 1,
            CallKind::Write => self.counters.writes += 1,
            CallKind::Seek => self.counters.seeks += 1,
            CallKind::Flush => self.counters.flushes += 1,
        }
        if self.in_domain(kind) {
            let seq = self.domain_seq;
            self.domain_seq += 1;
            if self.record_live && self.faults_enabled {
                self.live_seqs.push(seq);
            }
            if self.faults_enabled && self.fault_at.contains(&seq) {
                self.counters.faults_fired += 1;
                self.fired.push((self.api_call, seq, kind));
                return Some(io::Error::new(self.fault_kind, "injected fault"));
            }
        }
        None
    }

    fn next_chop(&mut self) -> Option<u8> {
        let plan = self.chop.as_ref()?;
        if plan.is_empty() {
            return None;
        }
        let b = plan[self.chop_pos % plan.len()];
        self.chop_pos += 1;
        Some(b)
    }
}

#[derive(Clone)]
pub struct Io {
    pub data: Arc<Mutex<Vec<u8>>>,
    pub pos: u64,
    pub ctl: Option<Arc<Mutex<Ctl>>>,
    /// writes that would make the "file" longer than this fail like a full disk
    pub cap: usize,
    /// when set, the bytes live in this real file instead of `data`
    pub file: Option<Arc<Mutex<std::fs::File>>>,
    pub file_path: Option<std::path::PathBuf>,
}

pub const DEFAULT_CAP: usize = 64 << 20;
/// `cap` with this bit set: a fixed-size backend (like `Cursor<&mut [u8]>`): a write that
/// reaches the end of the space is cut short and at the end returns Ok(0) instead of an error.
pub const FIXED_BIT: usize = 1 << 62;

impl Io {
    pub fn new() -> Io {
        Io { data: Arc::new(Mutex::new(Vec::new())), pos: 0, ctl: None, cap: DEFAULT_CAP, file: None, file_path: None }
    }
    pub fn from_bytes(bytes: Vec<u8>) -> Io {
        Io { data: Arc::new(Mutex::new(bytes)), pos: 0, ctl: None, cap: DEFAULT_CAP, file: None, file_path: None }
    }
    pub fn with_ctl(mut self, ctl: Arc<Mutex<Ctl>>) -> Io {
        self.ctl = Some(ctl);
        self
    }
    /// Backed by a real file (already opened read+write).
    pub fn from_file(f: std::fs::File, path: std::path::PathBuf) -> Io {
        Io { data: Arc::new(Mutex::new(Vec::new())), pos: 0, ctl: None, cap: DEFAULT_CAP, file: Some(Arc::new(Mutex::new(f))), file_path: Some(path) }
    }
    pub fn snapshot(&self) -> Vec<u8> {
        if let Some(p) = &self.file_path {
            return std::fs::read(p).unwrap_or_default();
        }
        self.data.lock().unwrap().clone()
    }
    pub fn len(&self) -> usize {
        if let Some(p) = &self.file_path {
            return std::fs::metadata(p).map(|m| m.len() as usize).unwrap_or(0);
        }
        self.data.lock().unwrap().len()
    }
    /// A second handle on the same bytes (own position), without controller.
    pub fn peer(&self) -> Io {
        Io { data: self.data.clone(), pos: 0, ctl: None, cap: self.cap, file: self.file.clone(), file_path: self.file_path.clone() }
    }
    /// A second handle on the same bytes that shares the controller.
    pub fn peer_ctl(&self) -> Io {
        Io { data: self.data.clone(), pos: 0, ctl: self.ctl.clone(), cap: self.cap, file: self.file.clone(), file_path: self.file_path.clone() }
    }
}

/// Decides how many bytes a chopped transfer moves: Err(Interrupted) or 1..=want.
fn chop_amount(ctl: &mut Ctl, want: usize) -> Result<usize, io::Error> {
    match ctl.next_chop() {
        None => Ok(want),
        Some(b) => {
            // b in 0..32: Interrupted (unless the previous one was too); 32..128: 1 byte;
            // 128..224: short count derived from b; else full.
            if b < 32 && !ctl.last_interrupted {
                ctl.last_interrupted = true;
                ctl.counters.interrupts += 1;
                return Err(io::Error::new(io::ErrorKind::Interrupted, "spurious interrupt"));
            }
            ctl.last_interrupted = false;
            if b < 128 {
                Ok(1.min(want))
            } else if b < 224 {
                let n = 1 + ((b as usize - 128) * 37) % want.max(1);
                Ok(n.min(want))
            } else {
                Ok(want)
            }
        }
    }
}

impl std::fmt::Debug for Io {
    fn fmt(&self, f: &mut std::fmt::Formatter<'_>) -> std::fmt::Result {
        write!(f, "Io({} bytes)", self.len())
    }
}

impl Read for Io {
    fn read(&mut self, buf: &mut [u8]) -> io::Result<usize> {
        let mut allowed = buf.len();
        if let Some(ctl) = &self.ctl {
            let mut c = ctl.lock().unwrap();
            if let Some(e) = c.tick(CallKind::Read) {
                if c.fault_side_effects {
                    drop(c);
                    self.pos = self.pos.saturating_add((buf.len() as u64 / 2).max(1));
                }
                return Err(e);
            }
            if !buf.is_empty() {
                allowed = chop_amount(&mut c, buf.len())?;
                if allowed < buf.len() {
                    c.counters.short_reads += 1;
                }
            }
        }
        if let Some(f) = &self.file {
            let mut f = f.lock().unwrap();
            f.seek(SeekFrom::Start(self.pos))?;
            let n = f.read(&mut buf[..allowed])?;
            self.pos += n as u64;
            return Ok(n);
        }
        let data = self.data.lock().unwrap();
        let len = data.len() as u64;
        if self.pos >= len {
            return Ok(0);
        }
        let avail = (len - self.pos) as usize;
        let n = allowed.min(avail);
        let start = self.pos as usize;
        buf[..n].copy_from_slice(&data[start..start + n]);
        self.pos += n as u64;
        Ok(n)
    }
}

impl Write for Io {
    fn write(&mut self, buf: &[u8]) -> io::Result<usize> {
        let mut allowed = buf.len();
        if let Some(ctl) = &self.ctl {
            let mut c = ctl.lock().unwrap();
            c.dirty_since_flush = true;
            if c.record_live && c.faults_enabled && self.pos < 512 && c.in_domain(CallKind::Write) {
                let seq = c.domain_seq;
                c.header_write_seqs.push(seq);
            }
            if let Some(e) = c.tick(CallKind::Write) {
                if c.fault_side_effects && self.file.is_none() {
                    // a prefix reached the medium before the error
                    drop(c);
                    let n = buf.len() / 2;
                    let mut data = self.data.lock().unwrap();
                    let start = self.pos as usize;
                    if start + n <= self.cap {
                        if data.len() < start + n {
                            data.resize(start + n, 0);
                        }
                        data[start..start + n].copy_from_slice(&buf[..n]);
                        self.pos += n as u64;
                    }
                }
                return Err(e);
            }
            if !buf.is_empty() {
                allowed = chop_amount(&mut c, buf.len())?;
                if allowed < buf.len() {
                    c.counters.short_writes += 1;
                }
            }
        }
        if let Some(f) = &self.file {
            let mut f = f.lock().unwrap();
            f.seek(SeekFrom::Start(self.pos))?;
            let n = f.write(&buf[..allowed])?;
            self.pos += n as u64;
            return Ok(n);
        }
        let mut data = self.data.lock().unwrap();
        let mut allowed = allowed;
        if self.cap & FIXED_BIT != 0 {
            let limit = (self.cap & !FIXED_BIT) as u64;
            allowed = allowed.min(limit.saturating_sub(self.pos) as usize);
            if allowed == 0 {
                return Ok(0);
            }
        } else if self.pos.saturating_add(allowed as u64) > self.cap as u64 {
            return Err(io::Error::new(io::ErrorKind::Other, "backend full (harness cap)"));
        }
        let start = self.pos as usize;
        let end = start + allowed;
        if data.len() < end {
            data.resize(end, 0);
        }
        data[start..end].copy_from_slice(&buf[..allowed]);
        self.pos = end as u64;
        Ok(allowed)
    }

    fn flush(&mut self) -> io::Result<()> {
        if let Some(ctl) = &self.ctl {
            let mut c = ctl.lock().unwrap();
            if let Some(e) = c.tick(CallKind::Flush) {
                return Err(e);
            }
            c.dirty_since_flush = false;
        }
        if let Some(f) = &self.file {
            return f.lock().unwrap().flush();
        }
        Ok(())
    }
}

impl Seek for Io {
    fn seek(&mut self, pos: SeekFrom) -> io::Result<u64> {
        if let Some(ctl) = &self.ctl {
            let mut c = ctl.lock().unwrap();
            if let Some(e) = c.tick(CallKind::Seek) {
                if c.fault_side_effects {
                    drop(c);
                    self.pos = self.pos.wrapping_add(7);
                }
                return Err(e);
            }
        }
        let len = self.len() as i128;
        let new = match pos {
            SeekFrom::Start(p) => p as i128,
            SeekFrom::End(d) => len + d as i128,
            SeekFrom::Current(d) => self.pos as i128 + d as i128,
        };
        if new < 0 || new > u64::MAX as i128 {
            return Err(io::Error::new(
                io::ErrorKind::InvalidInput,
                "invalid seek to a negative or overflowing position",
            ));
        }
        self.pos = new as u64;
        Ok(self.pos)
    }
}

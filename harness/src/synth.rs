//! Layout synthesizer (DESIGN 3.4): an independent *writer* that encodes a model tree in an
//! arbitrary legal physical layout.  Uses no `cfb` code.  All decisions come from a stream
//! of generated choices (so cases shrink toward the canonical layout).

use crate::model::*;
use crate::names::{cfb_cmp, cfb_eq, is_valid_name};
use crate::ops::{pick, DataSpec, TimeSpec};
use crate::util::Fail;
use serde::{Deserialize, Serialize};

pub const AVAILABLE: bool = true;

const FREESECT: u32 = 0xFFFF_FFFF;
const ENDOFCHAIN: u32 = 0xFFFF_FFFE;
const FATSECT: u32 = 0xFFFF_FFFD;
const DIFSECT: u32 = 0xFFFF_FFFC;
const NOSTREAM: u32 = 0xFFFF_FFFF;

#[derive(Clone, Debug, PartialEq, Eq, Serialize, Deserialize)]
pub enum ItemKind {
    Stream { data: DataSpec },
    Storage { clsid: [u8; 16], created: u64, modified: u64 },
}

#[derive(Clone, Debug, PartialEq, Eq, Serialize, Deserialize)]
pub struct Item {
    pub parent: u16,
    pub name: u16,
    pub state: u32,
    pub kind: ItemKind,
}

#[derive(Clone, Debug, PartialEq, Eq, Serialize, Deserialize)]
pub struct TreeSpec {
    pub root_clsid: [u8; 16],
    pub root_state: u32,
    pub root_created: u64,
    pub root_modified: u64,
    pub items: Vec<Item>,
}

/// Builds the model tree a TreeSpec describes (invalid or duplicate names are skipped).
pub fn build_model(spec: &TreeSpec, pool: &[String]) -> Model {
    let mut m = Model::new();
    if let Kind::Storage { clsid, created, modified, .. } = &mut m.root.kind {
        *clsid = spec.root_clsid;
        *created = TimeVal::Exact(spec.root_created);
        *modified = TimeVal::Exact(spec.root_modified);
    }
    m.root.state = spec.root_state;
    if pool.is_empty() {
        return m;
    }
    for it in spec.items.iter() {
        let storages = m.storages();
        let parent = storages[pick(it.parent, storages.len())].clone();
        if parent.len() >= 5 {
            continue;
        }
        let name = pool[pick(it.name, pool.len())].clone();
        if !is_valid_name(&name) {
            continue;
        }
        if m.get(&parent).unwrap().find_child(&name).is_some() {
            continue;
        }
        let node = match &it.kind {
            ItemKind::Stream { data } => Node { name, state: it.state, kind: Kind::Stream { data: data.bytes() } },
            ItemKind::Storage { clsid, created, modified } => Node {
                name,
                state: it.state,
                kind: Kind::Storage { children: vec![], clsid: *clsid, created: TimeVal::Exact(*created), modified: TimeVal::Exact(*modified) },
            },
        };
        m.insert(&parent, node);
    }
    m
}

/// Source of layout decisions.
pub struct Choices<'a> {
    data: &'a [u16],
    pos: usize,
}

impl<'a> Choices<'a> {
    pub fn new(data: &'a [u16]) -> Self {
        Choices { data, pos: 0 }
    }
    pub fn next(&mut self) -> u16 {
        if self.data.is_empty() {
            return 0;
        }
        let v = self.data[self.pos % self.data.len()];
        // vary repeated passes over a short choice list
        let pass = (self.pos / self.data.len()) as u16;
        self.pos += 1;
        v.wrapping_add(pass.wrapping_mul(40503))
    }
    pub fn below(&mut self, n: usize) -> usize {
        if n <= 1 {
            0
        } else {
            pick(self.next(), n)
        }
    }
    pub fn flag(&mut self, num: u16, den: u16) -> bool {
        self.next() % den < num
    }
    /// Fisher-Yates with the choice stream; all-zero choices give the identity.
    pub fn permute<T>(&mut self, v: &mut Vec<T>) {
        for i in 0..v.len() {
            let j = i + self.below(v.len() - i);
            v.swap(i, j);
        }
    }
}

#[derive(Clone, Debug, Default)]
pub struct LayoutInfo {
    pub fragmented_chain: bool,
    pub red_node_in_tree_of_3: bool,
    pub internal_red_level: bool,
    pub unallocated_gap: bool,
    pub difat_sectors: usize,
    pub fat_sectors: usize,
    pub dir_sectors: usize,
    pub minifat_sectors: usize,
    pub nsectors: usize,
    pub entries: usize,
}

struct FlatEntry {
    node_path: Vec<usize>,
    name: String,
    typ: u8,
    color: u8,
    left: u32,
    right: u32,
    child: u32,
    clsid: [u8; 16],
    state: u32,
    created: u64,
    modified: u64,
    start: u32,
    size: u64,
}

fn tv(t: &TimeVal) -> u64 {
    match t {
        TimeVal::Exact(v) => *v,
        _ => 0,
    }
}

/// Synthesizes an image for `model`. `surplus_fat`: extra FAT sectors mapping only
/// non-existent sectors (to get DIFAT sectors in small files).
pub fn synthesize(model: &Model, version: u8, choices: &[u16], surplus_fat: usize) -> (Vec<u8>, LayoutInfo) {
    synthesize_opts(model, version, choices, surplus_fat, 0)
}

/// `force_list` bits 0-1: 0 = generated shapes, 1 = every sibling tree a right-leaning list,
/// 2 = left-leaning list (degenerate trees of any size; all black). Bit 2 (value 4): the
/// FAT sector listed last in the DIFAT is placed at sector 0.
pub fn synthesize_opts(model: &Model, version: u8, choices: &[u16], surplus_fat: usize, force_list: u8) -> (Vec<u8>, LayoutInfo) {
    let pin_last_fat_at_zero = force_list & 4 != 0;
    let force_list = force_list & 3;
    let mut ch = Choices::new(choices);
    let mut info = LayoutInfo::default();
    let sl: usize = if version == 3 { 512 } else { 4096 };
    let per = sl / 4;

    // ---- 1. flatten the tree; assign directory slots
    // collect nodes in pre-order; index 0 = root
    struct Flat<'a> {
        node: &'a Node,
        parent: Option<usize>,
    }
    let mut flat: Vec<Flat> = vec![Flat { node: &model.root, parent: None }];
    let mut i = 0;
    while i < flat.len() {
        let node = flat[i].node;
        for c in node.children() {
            flat.push(Flat { node: c, parent: Some(i) });
        }
        i += 1;
    }
    let n = flat.len();
    // slots: root at 0; others permuted with gaps
    let gaps = if n > 1 { ch.below(4) } else { 0 } + if ch.flag(1, 4) { ch.below(6) } else { 0 };
    let mut slots: Vec<usize> = (1..n + gaps).collect();
    ch.permute(&mut slots);
    let mut slot_of = vec![0usize; n];
    for k in 1..n {
        slot_of[k] = slots[k - 1];
    }
    let max_slot = slot_of.iter().copied().max().unwrap_or(0);
    let trailing = ch.below(3);
    let dir_entries_per = sl / 128;
    let total_slots = {
        let want = max_slot + 1 + trailing;
        ((want + dir_entries_per - 1) / dir_entries_per) * dir_entries_per
    };
    info.unallocated_gap = (1..=max_slot).any(|s| !slot_of.contains(&s));
    info.entries = n;

    // ---- 2. sibling trees
    let mut left = vec![NOSTREAM; n];
    let mut right = vec![NOSTREAM; n];
    let mut child = vec![NOSTREAM; n];
    let mut color = vec![1u8; n];
    // children of each flat node, in CFB order (model keeps them sorted)
    let mut kids: Vec<Vec<usize>> = vec![Vec::new(); n];
    for k in 1..n {
        kids[flat[k].parent.unwrap()].push(k);
    }
    for p in 0..n {
        let ks = &kids[p];
        if ks.is_empty() {
            continue;
        }
        debug_assert!(ks.windows(2).all(|w| cfb_cmp(&flat[w[0]].node.name, &flat[w[1]].node.name) == std::cmp::Ordering::Less));
        let style = ch.below(8);
        if force_list == 2 {
            for w in ks.windows(2) {
                left[w[1]] = slot_of[w[0]] as u32;
            }
            child[p] = slot_of[*ks.last().unwrap()] as u32;
        } else if force_list == 1 || (style == 7 && ks.len() <= 6) {
            // degenerate right-leaning list, all black (what this library writes for
            // ascending insertions); legal as far as the property's rules go
            for w in ks.windows(2) {
                right[w[0]] = slot_of[w[1]] as u32;
            }
            child[p] = slot_of[ks[0]] as u32;
        } else {
            // balanced: complete levels black, the incomplete deepest level red
            let m = ks.len();
            let full_levels = (usize::BITS - (m + 1).leading_zeros() - 1) as usize; // floor(log2(m+1))
            let perfect = (1usize << full_levels) - 1 == m;
            fn build(ks: &[usize], lo: usize, hi: usize, depth: usize, red_levels: &[bool], upper: bool, slot_of: &[usize], left: &mut [u32], right: &mut [u32], color: &mut [u8]) -> u32 {
                if lo >= hi {
                    return NOSTREAM;
                }
                let len = hi - lo;
                let mid = if upper { lo + len / 2 } else { lo + (len - 1) / 2 };
                let id = ks[mid];
                color[id] = if red_levels.get(depth).copied().unwrap_or(false) { 0 } else { 1 };
                left[id] = build(ks, lo, mid, depth + 1, red_levels, upper, slot_of, left, right, color);
                right[id] = build(ks, mid + 1, hi, depth + 1, red_levels, upper, slot_of, left, right, color);
                slot_of[id] as u32
            }
            // Levels 0..full_levels-1 are complete. The incomplete deepest level (if any)
            // must be red; any complete level >= 1 may be red as a whole as long as no two
            // red levels are adjacent (every root-to-leaf path then has the same number of
            // black nodes): this gives internal red nodes with two children.
            let mut red_levels = vec![false; full_levels + 1];
            if !perfect {
                red_levels[full_levels] = true;
            }
            for d in (1..full_levels).rev() {
                if !red_levels[d + 1] && ch.flag(1, 3) {
                    red_levels[d] = true;
                }
            }
            let upper = ch.flag(1, 2);
            child[p] = build(ks, 0, m, 0, &red_levels, upper, &slot_of, &mut left, &mut right, &mut color);
            if m >= 3 && red_levels.iter().any(|r| *r) {
                info.red_node_in_tree_of_3 = true;
            }
            if red_levels[..full_levels].iter().any(|r| *r) {
                info.internal_red_level = true;
            }
        }
    }

    // ---- 3. stream placement
    let mut mini_streams: Vec<(usize, usize)> = Vec::new(); // (flat idx, mini sector count)
    let mut big_streams: Vec<(usize, usize)> = Vec::new(); // (flat idx, sector count)
    for k in 1..n {
        if let Kind::Stream { data } = &flat[k].node.kind {
            if data.is_empty() {
                continue;
            }
            if data.len() < 4096 {
                mini_streams.push((k, (data.len() + 63) / 64));
            } else {
                big_streams.push((k, (data.len() + sl - 1) / sl));
            }
        }
    }
    let mini_used: usize = mini_streams.iter().map(|x| x.1).sum();
    let mini_free = if mini_used > 0 { ch.below(5) } else { 0 };
    let mini_total = mini_used + mini_free;
    let mut mini_ids: Vec<u32> = (0..mini_total as u32).collect();
    ch.permute(&mut mini_ids);
    // the last mini sector of the mini stream must exist; free mini sectors may be anywhere
    let mut minifat_cells = vec![FREESECT; mini_total];
    let mut mini_start = vec![ENDOFCHAIN; n];
    let mut mini_chain_of: Vec<(usize, Vec<u32>)> = Vec::new();
    {
        let mut cursor = 0;
        for &(k, cnt) in mini_streams.iter() {
            let ids: Vec<u32> = mini_ids[cursor..cursor + cnt].to_vec();
            cursor += cnt;
            for w in 0..cnt {
                minifat_cells[ids[w] as usize] = if w + 1 < cnt { ids[w + 1] } else { ENDOFCHAIN };
            }
            if ids.windows(2).any(|w| w[1] != w[0] + 1) {
                info.fragmented_chain = true;
            }
            mini_start[k] = ids[0];
            mini_chain_of.push((k, ids));
        }
    }
    let ministream_sectors = (mini_total * 64 + sl - 1) / sl;
    let minifat_sectors = (mini_total * 4 + sl - 1) / sl + if mini_total > 0 && ch.flag(1, 8) { 1 } else { 0 };
    let dir_sectors = total_slots / dir_entries_per;
    let extra_free = ch.below(4) + if ch.flag(1, 6) { ch.below(12) } else { 0 };
    let data_sectors: usize = big_streams.iter().map(|x| x.1).sum();
    let base = dir_sectors + minifat_sectors + ministream_sectors + data_sectors + extra_free;
    // FAT / DIFAT fixpoint
    let mut fat_sectors = 1;
    let mut difat_sectors = 0;
    loop {
        let total = base + fat_sectors + difat_sectors;
        let need_fat = (total + per - 1) / per + surplus_fat;
        let need_difat = if need_fat > 109 { (need_fat - 109 + (per - 2)) / (per - 1) } else { 0 };
        if need_fat == fat_sectors && need_difat == difat_sectors {
            break;
        }
        fat_sectors = need_fat;
        difat_sectors = need_difat;
    }
    let total = base + fat_sectors + difat_sectors;
    info.fat_sectors = fat_sectors;
    info.difat_sectors = difat_sectors;
    info.dir_sectors = dir_sectors;
    info.minifat_sectors = minifat_sectors;
    info.nsectors = total;
    // assign sector numbers
    let mut ids: Vec<u32> = (0..total as u32).collect();
    ch.permute(&mut ids);
    if pin_last_fat_at_zero {
        let want = dir_sectors + minifat_sectors + ministream_sectors + fat_sectors - 1;
        if let Some(z) = ids.iter().position(|&v| v == 0) {
            ids.swap(z, want);
        }
    }
    let mut take = |k: usize| -> Vec<u32> {
        let v: Vec<u32> = ids.drain(..k).collect();
        v
    };
    let dir_chain = take(dir_sectors);
    let minifat_chain = take(minifat_sectors);
    let ministream_chain = take(ministream_sectors);
    let fat_ids = take(fat_sectors);
    let difat_ids = take(difat_sectors);
    let mut big_chain_of: Vec<(usize, Vec<u32>)> = Vec::new();
    for &(k, cnt) in big_streams.iter() {
        let c = take(cnt);
        if c.windows(2).any(|w| w[1] != w[0] + 1) {
            info.fragmented_chain = true;
        }
        big_chain_of.push((k, c));
    }
    // remaining ids are free sectors
    let mut fat = vec![FREESECT; fat_sectors * per];
    let link = |fat: &mut Vec<u32>, chain: &[u32]| {
        for w in 0..chain.len() {
            fat[chain[w] as usize] = if w + 1 < chain.len() { chain[w + 1] } else { ENDOFCHAIN };
        }
    };
    link(&mut fat, &dir_chain);
    link(&mut fat, &minifat_chain);
    link(&mut fat, &ministream_chain);
    for (_, c) in big_chain_of.iter() {
        link(&mut fat, c);
    }
    for &f in fat_ids.iter() {
        fat[f as usize] = FATSECT;
    }
    for &d in difat_ids.iter() {
        fat[d as usize] = DIFSECT;
    }
    if dir_chain.windows(2).any(|w| w[1] != w[0] + 1) || ministream_chain.windows(2).any(|w| w[1] != w[0] + 1) {
        info.fragmented_chain = true;
    }

    // ---- 4. emit
    let mut img = vec![0u8; (total + 1) * sl];
    let put16 = |img: &mut Vec<u8>, off: usize, v: u16| img[off..off + 2].copy_from_slice(&v.to_le_bytes());
    let put32 = |img: &mut Vec<u8>, off: usize, v: u32| img[off..off + 4].copy_from_slice(&v.to_le_bytes());
    let put64 = |img: &mut Vec<u8>, off: usize, v: u64| img[off..off + 8].copy_from_slice(&v.to_le_bytes());
    let soff = |s: u32| (s as usize + 1) * sl;
    // header
    img[0..8].copy_from_slice(&[0xD0, 0xCF, 0x11, 0xE0, 0xA1, 0xB1, 0x1A, 0xE1]);
    put16(&mut img, 24, [0x3E, 0x3B, 0x21, 0][ch.below(4)]);
    put16(&mut img, 26, version as u16);
    put16(&mut img, 28, 0xFFFE);
    put16(&mut img, 30, if version == 3 { 9 } else { 12 });
    put16(&mut img, 32, 6);
    put32(&mut img, 40, if version == 3 { 0 } else { dir_sectors as u32 });
    put32(&mut img, 44, fat_sectors as u32);
    put32(&mut img, 48, dir_chain[0]);
    put32(&mut img, 52, if ch.flag(1, 3) { ch.next() as u32 * 65537 } else { 0 });
    put32(&mut img, 56, 4096);
    put32(&mut img, 60, minifat_chain.first().copied().unwrap_or(ENDOFCHAIN));
    put32(&mut img, 64, minifat_sectors as u32);
    put32(&mut img, 68, difat_ids.first().copied().unwrap_or(ENDOFCHAIN));
    put32(&mut img, 72, difat_sectors as u32);
    for i in 0..109 {
        put32(&mut img, 76 + 4 * i, fat_ids.get(i).copied().unwrap_or(FREESECT));
    }
    // DIFAT sectors
    for (di, &d) in difat_ids.iter().enumerate() {
        let off = soff(d);
        for c in 0..per - 1 {
            let idx = 109 + di * (per - 1) + c;
            put32(&mut img, off + 4 * c, fat_ids.get(idx).copied().unwrap_or(FREESECT));
        }
        put32(&mut img, off + sl - 4, difat_ids.get(di + 1).copied().unwrap_or(ENDOFCHAIN));
    }
    // FAT sectors
    for (fi, &f) in fat_ids.iter().enumerate() {
        let off = soff(f);
        for c in 0..per {
            put32(&mut img, off + 4 * c, fat[fi * per + c]);
        }
    }
    // MiniFAT
    for (mi, &s) in minifat_chain.iter().enumerate() {
        let off = soff(s);
        for c in 0..per {
            let idx = mi * per + c;
            put32(&mut img, off + 4 * c, minifat_cells.get(idx).copied().unwrap_or(FREESECT));
        }
    }
    // stream data
    for (k, ids) in mini_chain_of.iter() {
        if let Kind::Stream { data } = &flat[*k].node.kind {
            let per_ms = sl / 64;
            for (w, &ms) in ids.iter().enumerate() {
                let sec = ministream_chain[ms as usize / per_ms];
                let off = soff(sec) + (ms as usize % per_ms) * 64;
                let chunk = &data[w * 64..data.len().min(w * 64 + 64)];
                img[off..off + chunk.len()].copy_from_slice(chunk);
                // slack of the last mini sector: garbage is legal
                if chunk.len() < 64 && ch.flag(1, 2) {
                    for b in img[off + chunk.len()..off + 64].iter_mut() {
                        *b = 0xA5;
                    }
                }
            }
        }
    }
    for (k, ids) in big_chain_of.iter() {
        if let Kind::Stream { data } = &flat[*k].node.kind {
            for (w, &s) in ids.iter().enumerate() {
                let off = soff(s);
                let chunk = &data[w * sl..data.len().min(w * sl + sl)];
                img[off..off + chunk.len()].copy_from_slice(chunk);
                if chunk.len() < sl && ch.flag(1, 2) {
                    for b in img[off + chunk.len()..off + sl].iter_mut() {
                        *b = 0x5A;
                    }
                }
            }
        }
    }
    // free sectors may hold garbage
    for &s in ids.iter() {
        if ch.flag(1, 2) {
            let off = soff(s);
            for b in img[off..off + sl].iter_mut() {
                *b = 0xEE;
            }
        }
    }
    // directory
    let big_start: std::collections::HashMap<usize, u32> = big_chain_of.iter().map(|(k, c)| (*k, c[0])).collect();
    let entry_off = |slot: usize| soff(dir_chain[slot / dir_entries_per]) + (slot % dir_entries_per) * 128;
    for slot in 0..total_slots {
        let off = entry_off(slot);
        for b in img[off..off + 128].iter_mut() {
            *b = 0;
        }
        put32(&mut img, off + 68, NOSTREAM);
        put32(&mut img, off + 72, NOSTREAM);
        put32(&mut img, off + 76, NOSTREAM);
    }
    for k in 0..n {
        let node = flat[k].node;
        let off = entry_off(slot_of[k]);
        let name = if k == 0 { "Root Entry".to_string() } else { node.name.clone() };
        let units: Vec<u16> = name.encode_utf16().collect();
        for (i, u) in units.iter().enumerate() {
            put16(&mut img, off + 2 * i, *u);
        }
        put16(&mut img, off + 64, (units.len() as u16 + 1) * 2);
        put32(&mut img, off + 68, left[k]);
        put32(&mut img, off + 72, right[k]);
        put32(&mut img, off + 76, child[k]);
        put32(&mut img, off + 96, node.state);
        match &node.kind {
            Kind::Storage { clsid, created, modified, .. } => {
                img[off + 66] = if k == 0 { 5 } else { 1 };
                img[off + 67] = if k == 0 { [1u8, 0][ch.below(2)] } else { color[k] };
                let g = clsid;
                let disk = [g[3], g[2], g[1], g[0], g[5], g[4], g[7], g[6], g[8], g[9], g[10], g[11], g[12], g[13], g[14], g[15]];
                img[off + 80..off + 96].copy_from_slice(&disk);
                put64(&mut img, off + 100, tv(created));
                put64(&mut img, off + 108, tv(modified));
                if k == 0 {
                    put32(&mut img, off + 116, ministream_chain.first().copied().unwrap_or(ENDOFCHAIN));
                    put64(&mut img, off + 120, (mini_total * 64) as u64);
                }
            }
            Kind::Stream { data } => {
                img[off + 66] = 2;
                img[off + 67] = color[k];
                let start = if data.is_empty() {
                    ENDOFCHAIN
                } else if data.len() < 4096 {
                    mini_start[k]
                } else {
                    big_start[&k]
                };
                put32(&mut img, off + 116, start);
                put64(&mut img, off + 120, data.len() as u64);
            }
        }
    }
    (img, info)
}

/// Deterministic small tree + layout from a seed (start state `Start::Foreign`).
pub fn foreign_start(seed: u64, version: u8, pool: &[String]) -> Result<(Vec<u8>, Model), Fail> {
    let mut x = seed | 1;
    let mut next = move || {
        x ^= x << 13;
        x ^= x >> 7;
        x ^= x << 17;
        x
    };
    let nitems = (next() % 14) as usize;
    let mut items = Vec::new();
    for _ in 0..nitems {
        let r = next();
        let kind = if r % 3 == 0 {
            ItemKind::Storage { clsid: (next() as u128 * 0x1_0000_0001u128).to_le_bytes(), created: next() >> 3, modified: next() >> 5 }
        } else {
            let sizes = [0u32, 1, 63, 64, 65, 500, 4095, 4096, 4097, 6000];
            ItemKind::Stream { data: DataSpec { len: sizes[(next() % sizes.len() as u64) as usize], seed: next() as u8 } }
        };
        items.push(Item { parent: next() as u16, name: next() as u16, state: next() as u32, kind });
    }
    let spec = TreeSpec { root_clsid: (next() as u128).to_le_bytes(), root_state: next() as u32, root_created: 0, root_modified: next() >> 4, items };
    let model = build_model(&spec, pool);
    let choices: Vec<u16> = (0..40).map(|_| next() as u16).collect();
    let (img, _info) = synthesize(&model, version, &choices, 0);
    let rules = crate::refparse::check(&img);
    if let Some((id, d)) = rules.first() {
        return Err(Fail::new("harness|synth_invalid", format!("synthesizer produced an image the checker rejects: {} {}", id, d)));
    }
    Ok((img, model))
}

pub fn names_unique(model: &Model) -> bool {
    fn rec(n: &Node) -> bool {
        let ch = n.children();
        for i in 0..ch.len() {
            for j in i + 1..ch.len() {
                if cfb_eq(&ch[i].name, &ch[j].name) {
                    return false;
                }
            }
        }
        ch.iter().all(rec)
    }
    rec(&model.root)
}

//! Abstract model of a compound file (DESIGN 3.1): a tree of storages with
//! case-insensitively unique names whose leaves are byte vectors.  No `cfb` code is used.

use crate::names::{cfb_cmp, cfb_eq, is_valid_name};
use serde::{Deserialize, Serialize};
use std::cmp::Ordering;

pub const UNIX_EPOCH_FT: u64 = 116_444_736_000_000_000;

#[derive(Clone, Copy, Debug, PartialEq, Eq, Hash, Serialize, Deserialize, PartialOrd, Ord)]
pub enum ErrKind {
    NotFound,
    AlreadyExists,
    InvalidInput,
    /// any other io::ErrorKind
    Other,
}

/// A time the model knows exactly (FILETIME ticks) or only as an interval until observed.
#[derive(Clone, Copy, Debug, PartialEq, Eq)]
pub enum TimeVal {
    Exact(u64),
    Between(u64, u64),
    /// not compared (e.g. after `touch`, or root after touch("/"))
    Unknown,
}

#[derive(Clone, Debug)]
pub enum Kind {
    Storage { children: Vec<Node>, clsid: [u8; 16], created: TimeVal, modified: TimeVal },
    Stream { data: Vec<u8> },
}

#[derive(Clone, Debug)]
pub struct Node {
    pub name: String,
    pub state: u32,
    pub kind: Kind,
}

impl Node {
    pub fn is_stream(&self) -> bool {
        matches!(self.kind, Kind::Stream { .. })
    }
    pub fn children(&self) -> &[Node] {
        match &self.kind {
            Kind::Storage { children, .. } => children,
            _ => &[],
        }
    }
    pub fn children_mut(&mut self) -> Option<&mut Vec<Node>> {
        match &mut self.kind {
            Kind::Storage { children, .. } => Some(children),
            _ => None,
        }
    }
    pub fn find_child(&self, name: &str) -> Option<usize> {
        self.children().iter().position(|c| cfb_eq(&c.name, name))
    }
    pub fn count(&self) -> usize {
        1 + self.children().iter().map(|c| c.count()).sum::<usize>()
    }
}

#[derive(Clone, Debug)]
pub struct Model {
    pub root: Node,
}

/// Result of normalising a path string (own implementation, not std::path).
#[derive(Clone, Debug, PartialEq, Eq)]
pub enum NormPath {
    Ok(Vec<String>),
    /// escapes the root or has a component that is not UTF-8
    Invalid,
}

/// Normalises raw path bytes the way a POSIX path is read: split on '/', drop empty and
/// "." components, ".." pops (InvalidInput at the root), a leading '/' restarts at the root.
pub fn normalise(path: &[u8]) -> NormPath {
    let mut names: Vec<String> = Vec::new();
    for comp in path.split(|&b| b == b'/') {
        if comp.is_empty() || comp == b"." {
            continue;
        }
        if comp == b".." {
            if names.pop().is_none() {
                return NormPath::Invalid;
            }
            continue;
        }
        match std::str::from_utf8(comp) {
            Ok(s) => names.push(s.to_string()),
            Err(_) => return NormPath::Invalid,
        }
    }
    NormPath::Ok(names)
}

pub fn path_string(names: &[String]) -> String {
    let mut s = String::from("/");
    for (i, n) in names.iter().enumerate() {
        if i > 0 {
            s.push('/');
        }
        s.push_str(n);
    }
    s
}

/// What a lookup of a name chain finds.
pub enum Found<'a> {
    Node(&'a Node),
    /// some component is missing; `under_stream` is true when the walk was blocked by a
    /// stream in the middle of the chain
    Missing { under_stream: bool },
}

#[derive(Clone, Debug, PartialEq, Eq)]
pub struct EntryInfo {
    pub name: String,
    pub path: String,
    pub is_stream: bool,
    pub is_storage: bool,
    pub is_root: bool,
    /// None: not compared (storages, root)
    pub len: Option<u64>,
    pub clsid: [u8; 16],
    pub state: u32,
    pub created: TimeVal,
    pub modified: TimeVal,
}

impl Model {
    pub fn new() -> Model {
        Model {
            root: Node {
                name: "Root Entry".to_string(),
                state: 0,
                kind: Kind::Storage {
                    children: Vec::new(),
                    clsid: [0; 16],
                    created: TimeVal::Exact(0),
                    modified: TimeVal::Exact(0),
                },
            },
        }
    }

    pub fn lookup(&self, names: &[String]) -> Found<'_> {
        let mut cur = &self.root;
        for n in names.iter() {
            if cur.is_stream() {
                return Found::Missing { under_stream: true };
            }
            match cur.find_child(n) {
                Some(i) => cur = &cur.children()[i],
                None => return Found::Missing { under_stream: false },
            }
        }
        Found::Node(cur)
    }

    pub fn get(&self, names: &[String]) -> Option<&Node> {
        match self.lookup(names) {
            Found::Node(n) => Some(n),
            _ => None,
        }
    }

    pub fn get_mut(&mut self, names: &[String]) -> Option<&mut Node> {
        let mut cur = &mut self.root;
        for n in names.iter() {
            let idx = cur.find_child(n)?;
            cur = &mut cur.children_mut()?[idx];
        }
        Some(cur)
    }

    /// Inserts a child keeping CFB order. Caller has checked uniqueness.
    pub fn insert(&mut self, parent: &[String], node: Node) {
        let p = self.get_mut(parent).expect("parent exists");
        let ch = p.children_mut().expect("parent is storage");
        let pos = ch
            .binary_search_by(|c| cfb_cmp(&c.name, &node.name))
            .unwrap_or_else(|e| e);
        ch.insert(pos, node);
    }

    pub fn remove(&mut self, names: &[String]) -> Node {
        let (last, parent) = names.split_last().expect("not root");
        let p = self.get_mut(parent).expect("parent exists");
        let idx = p.find_child(last).expect("child exists");
        p.children_mut().unwrap().remove(idx)
    }

    fn info(node: &Node, path: String, is_root: bool) -> EntryInfo {
        match &node.kind {
            Kind::Storage { clsid, created, modified, .. } => EntryInfo {
                name: node.name.clone(),
                path,
                is_stream: false,
                is_storage: true,
                is_root,
                len: None,
                clsid: *clsid,
                state: node.state,
                created: *created,
                modified: *modified,
            },
            Kind::Stream { data } => EntryInfo {
                name: node.name.clone(),
                path,
                is_stream: true,
                is_storage: false,
                is_root: false,
                len: Some(data.len() as u64),
                clsid: [0; 16],
                state: node.state,
                created: TimeVal::Exact(0),
                modified: TimeVal::Exact(0),
            },
        }
    }

    /// Entry info of the object at `names`, with path built from *stored* names.
    pub fn entry_info(&self, names: &[String]) -> Option<EntryInfo> {
        let mut cur = &self.root;
        let mut stored: Vec<String> = Vec::new();
        for n in names.iter() {
            let i = cur.find_child(n)?;
            cur = &cur.children()[i];
            stored.push(cur.name.clone());
        }
        Some(Self::info(cur, path_string(&stored), names.is_empty()))
    }

    /// Children listing in CFB order (paths from stored names, parent spelled as stored).
    pub fn list(&self, names: &[String]) -> Option<Vec<EntryInfo>> {
        let parent = self.entry_info(names)?;
        let node = self.get(names)?;
        if node.is_stream() {
            return None;
        }
        Some(
            node.children()
                .iter()
                .map(|c| Self::info(c, join(&parent.path, &c.name), false))
                .collect(),
        )
    }

    /// Pre-order walk starting at (and including) `names`.
    pub fn walk(&self, names: &[String]) -> Option<Vec<EntryInfo>> {
        let start = self.entry_info(names)?;
        let node = self.get(names)?;
        let mut out = Vec::new();
        fn rec(node: &Node, path: String, is_root: bool, out: &mut Vec<EntryInfo>) {
            out.push(Model::info(node, path.clone(), is_root));
            for c in node.children() {
                rec(c, join(&path, &c.name), false, out);
            }
        }
        rec(node, start.path, names.is_empty(), &mut out);
        Some(out)
    }

    /// All (path components, is_stream) pairs in pre-order, root excluded.
    pub fn all_paths(&self) -> Vec<(Vec<String>, bool)> {
        let mut out = Vec::new();
        fn rec(node: &Node, prefix: &mut Vec<String>, out: &mut Vec<(Vec<String>, bool)>) {
            for c in node.children() {
                prefix.push(c.name.clone());
                out.push((prefix.clone(), c.is_stream()));
                rec(c, prefix, out);
                prefix.pop();
            }
        }
        rec(&self.root, &mut Vec::new(), &mut out);
        out
    }

    pub fn streams(&self) -> Vec<Vec<String>> {
        self.all_paths().into_iter().filter(|(_, s)| *s).map(|(p, _)| p).collect()
    }
    /// storages, root first (empty chain)
    pub fn storages(&self) -> Vec<Vec<String>> {
        let mut v = vec![Vec::new()];
        v.extend(self.all_paths().into_iter().filter(|(_, s)| !*s).map(|(p, _)| p));
        v
    }
    pub fn count(&self) -> usize {
        self.root.count()
    }
}

pub fn join(parent: &str, name: &str) -> String {
    if parent == "/" {
        format!("/{}", name)
    } else {
        format!("{}/{}", parent, name)
    }
}

/// FILETIME ticks for a time given as signed seconds + nanos relative to the Unix epoch
/// (`neg` = before the epoch), saturating, nanos/100 truncated (DESIGN C17).
pub fn filetime_from_unix(neg: bool, secs: u64, nanos: u32) -> u64 {
    let delta = secs.saturating_mul(10_000_000).saturating_add((nanos / 100) as u64);
    if neg {
        UNIX_EPOCH_FT.saturating_sub(delta)
    } else {
        UNIX_EPOCH_FT.saturating_add(delta)
    }
}

pub fn time_matches(expected: &TimeVal, actual_ft: u64) -> bool {
    match expected {
        TimeVal::Exact(v) => *v == actual_ft,
        TimeVal::Between(lo, hi) => *lo <= actual_ft && actual_ft <= *hi,
        TimeVal::Unknown => true,
    }
}

/// Reasons for refusing a create (DESIGN 3.1: any applicable reason's kind is accepted).
pub struct CreatePlan {
    /// empty = must succeed
    pub refusals: Vec<ErrKind>,
    pub parent: Vec<String>,
    pub name: String,
    /// an existing node at the path (for overwrite semantics)
    pub existing_is_stream: Option<bool>,
}

impl Model {
    /// Plans `create_storage`/`create_stream`/`create_new_stream` at a normalised chain.
    /// `overwrite_stream`: an existing stream is not a refusal (create_stream).
    pub fn plan_create(&self, names: &[String], overwrite_stream: bool) -> CreatePlan {
        let mut refusals = Vec::new();
        let mut existing_is_stream = None;
        if names.is_empty() {
            // the root always exists
            refusals.push(ErrKind::AlreadyExists);
            return CreatePlan { refusals, parent: vec![], name: String::new(), existing_is_stream: Some(false) };
        }
        let (name, parent) = names.split_last().unwrap();
        match self.lookup(names) {
            Found::Node(n) => {
                existing_is_stream = Some(n.is_stream());
                if !(overwrite_stream && n.is_stream()) {
                    refusals.push(ErrKind::AlreadyExists);
                }
            }
            Found::Missing { .. } => {
                match self.lookup(parent) {
                    Found::Node(p) => {
                        if p.is_stream() {
                            // parent is a stream: NotFound or InvalidInput, never Ok
                            refusals.push(ErrKind::NotFound);
                            refusals.push(ErrKind::InvalidInput);
                        }
                    }
                    Found::Missing { .. } => refusals.push(ErrKind::NotFound),
                }
                if !is_valid_name(name) {
                    refusals.push(ErrKind::InvalidInput);
                }
            }
        }
        CreatePlan { refusals, parent: parent.to_vec(), name: name.clone(), existing_is_stream }
    }
}

pub fn sort_names(names: &mut Vec<String>) {
    names.sort_by(|a, b| cfb_cmp(a, b));
}

pub fn is_sorted_cfb(names: &[String]) -> bool {
    names.windows(2).all(|w| cfb_cmp(&w[0], &w[1]) == Ordering::Less)
}

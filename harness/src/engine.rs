//! History engine (DESIGN 3.7): interprets a `Vec<Op>` simultaneously on the library
//! (over the shared in-memory backend) and on the abstract model, and runs the oracle set
//! enabled for the property being checked after each step.

use crate::backend::Io;
use crate::model::*;
use crate::names::{case_variant, cfb_eq, is_valid_name};
use crate::ops::*;
use crate::util::*;
use cfb::{CompoundFile, OpenOptions, Version};
use std::collections::BTreeMap;
use std::io::{BufRead, Read, Seek, SeekFrom, Write};
use std::path::PathBuf;

pub type Cfb = CompoundFile<Io>;

#[derive(Clone, Debug, Default)]
pub struct Oracles {
    /// C18: a freshly created object is dropped and the bytes opened again before the
    /// history starts (what the real-file run does after cfb::create(path)), so that all
    /// compared runs perform the same sequence of library calls
    pub reopen_after_create: bool,
    /// C07: a stream with an open handle may be removed; the handle is kept (detached) and
    /// used later - it must touch nothing. No stream is created while such a handle exists.
    pub stale_handles: bool,
    /// full dump vs model every n ops (0 = only at the end)
    pub dump_every: usize,
    /// C02: snapshot + reopen (both modes) at every clean boundary
    pub reopen_check: bool,
    /// C02: probability selector - replace the live object by the reopened one every n-th
    /// clean boundary (0 = never)
    pub reopen_replace_every: usize,
    /// C03: independent checker on the snapshot after every successful op (every n-th)
    pub checker_every: usize,
    /// C10: byte image identical across refused calls
    pub bytes_on_refusal: bool,
    /// C08: after each growing set_len, verify zeros via same handle / fresh handle / reopen
    pub grow_check: bool,
    /// C15/C03 etc.: callback-free flags
    pub final_reopen: bool,
    /// measure sibling-tree shapes of removed nodes on the byte image (independent parser)
    pub measure_shapes: bool,
    /// track header counters / file length changes (C02 non-trivial rule)
    pub track_tables: bool,
    /// count underlying I/O calls (C06 non-trivial rule)
    pub count_io: bool,
    /// keep a shadow 'was ever non-zero' bitmap of the file (C08 non-trivial rule)
    pub shadow_nonzero: bool,
    /// C18: pin the times of every new storage to a value derived from the op index
    pub pin_new_times: bool,
    /// C18: chop plan for the backend (short transfers, spurious Interrupted)
    pub chop: Option<Vec<u8>>,
    /// C18: keep the bytes in a real file at this path
    pub file_path: Option<std::path::PathBuf>,
    /// the start image carries tolerated deviations: strict reopen is not an oracle
    pub no_strict: bool,
}

pub struct Handle {
    pub stream: cfb::Stream<Io>,
    pub path: Vec<String>,
    pub pos: u64,
    pub dirty: bool,
}

#[derive(Default, Clone, Debug)]
pub struct Stats {
    pub classes: BTreeMap<String, u64>,
    pub ops_run: u64,
    pub excluded: u64,
    pub refusals: u64,
    pub boundaries_checked: u64,
    pub boundaries_skipped_dirty: u64,
}

impl Stats {
    pub fn bump(&mut self, class: &str) {
        *self.classes.entry(class.to_string()).or_insert(0) += 1;
    }
    pub fn has(&self, class: &str) -> bool {
        self.classes.get(class).copied().unwrap_or(0) > 0
    }
}

pub struct Engine {
    pub cfb: Option<Cfb>,
    pub io: Io,
    pub model: Model,
    pub handles: Vec<Option<Handle>>,
    /// handles whose own stream has been removed (oracles.stale_handles)
    pub stale: Vec<cfb::Stream<Io>>,
    pub stale_since: usize,
    pub version: u8,
    pub max_buf: Option<u32>,
    pub pool: Vec<String>,
    pub oracles: Oracles,
    pub stats: Stats,
    pub trace: Vec<String>,
    pub op_index: usize,
    clean_boundaries: usize,
    succ_ops: usize,
    pub last_header: Vec<u8>,
    pub tables_changed: bool,
    pub replaced_after_change: bool,
    pub succ_mutations: u64,
    pub pending_refusal: bool,
    pub freed: bool,
    pub ctl: Option<std::sync::Arc<std::sync::Mutex<crate::backend::Ctl>>>,
    pub ever_nonzero: Vec<bool>,
    pub ev_pred_removed: bool,
    pub ev_removed_any: bool,
    pub ev_slot_reused: bool,
    pub own_writes: Vec<Vec<(u64, u64)>>,
    pub writebacks: u64,
}

pub struct Resolved {
    pub bytes: Vec<u8>,
    pub norm: NormPath,
}

impl Resolved {
    pub fn path(&self) -> PathBuf {
        use std::os::unix::ffi::OsStrExt;
        PathBuf::from(std::ffi::OsStr::from_bytes(&self.bytes))
    }
    pub fn show(&self) -> String {
        String::from_utf8_lossy(&self.bytes).to_string()
    }
}

#[derive(Clone, Debug)]
pub struct ObsEntry {
    pub name: String,
    pub path: String,
    pub is_stream: bool,
    pub is_storage: bool,
    pub is_root: bool,
    pub len: u64,
    pub is_empty: bool,
    pub clsid: [u8; 16],
    pub state: u32,
    pub created: Result<u64, String>,
    pub modified: Result<u64, String>,
}

pub fn obs_entry(e: &cfb::Entry) -> ObsEntry {
    ObsEntry {
        name: e.name().to_string(),
        path: e.path().to_string_lossy().to_string(),
        is_stream: e.is_stream(),
        is_storage: e.is_storage(),
        is_root: e.is_root(),
        len: e.len(),
        is_empty: e.is_empty(),
        clsid: *e.clsid().as_bytes(),
        state: e.state_bits(),
        created: systime_to_ft(e.created()),
        modified: systime_to_ft(e.modified()),
    }
}

fn path_components(p: &str) -> Vec<&str> {
    p.split('/').filter(|c| !c.is_empty()).collect()
}

/// Compares an observed entry with the model's expectation.  `listing`: the entry came from
/// an iterator (its last path component must be the stored name exactly).
pub fn cmp_entry(exp: &EntryInfo, obs: &ObsEntry, listing: bool) -> Result<(), String> {
    if exp.name != obs.name {
        return Err(format!("name: expected {:?}, got {:?}", exp.name, obs.name));
    }
    let ec = path_components(&exp.path);
    let oc = path_components(&obs.path);
    if !obs.path.starts_with('/') || ec.len() != oc.len() || !ec.iter().zip(oc.iter()).all(|(a, b)| cfb_eq(a, b)) {
        return Err(format!("path: expected {:?}, got {:?}", exp.path, obs.path));
    }
    if listing && !exp.is_root {
        if oc.last().copied() != Some(exp.name.as_str()) {
            return Err(format!("listing path {:?} does not end in stored name {:?}", obs.path, exp.name));
        }
    }
    if exp.is_stream != obs.is_stream || exp.is_storage != obs.is_storage || exp.is_root != obs.is_root {
        return Err(format!(
            "kind: expected stream={} storage={} root={}, got stream={} storage={} root={}",
            exp.is_stream, exp.is_storage, exp.is_root, obs.is_stream, obs.is_storage, obs.is_root
        ));
    }
    if let Some(l) = exp.len {
        if l != obs.len {
            return Err(format!("len: expected {}, got {}", l, obs.len));
        }
    }
    if obs.is_empty != (obs.len == 0) {
        return Err(format!("is_empty() = {} but len() = {}", obs.is_empty, obs.len));
    }
    if exp.clsid != obs.clsid {
        return Err(format!("clsid: expected {}, got {}", hex(&exp.clsid), hex(&obs.clsid)));
    }
    if exp.state != obs.state {
        return Err(format!("state bits: expected {:#x}, got {:#x}", exp.state, obs.state));
    }
    for (what, e, o) in [("created", &exp.created, &obs.created), ("modified", &exp.modified, &obs.modified)] {
        match o {
            Err(msg) => {
                if !matches!(e, TimeVal::Unknown) {
                    return Err(format!("{} time: {}", what, msg));
                }
            }
            Ok(ft) => {
                if !time_matches(e, *ft) {
                    return Err(format!("{} time: expected {:?}, got {}", what, e, ft));
                }
            }
        }
    }
    Ok(())
}

pub fn cmp_entries(exp: &[EntryInfo], obs: &[ObsEntry]) -> Result<(), String> {
    if exp.len() != obs.len() {
        return Err(format!(
            "listing length: expected {} {:?}, got {} {:?}",
            exp.len(),
            exp.iter().map(|e| e.path.clone()).collect::<Vec<_>>(),
            obs.len(),
            obs.iter().map(|e| e.path.clone()).collect::<Vec<_>>()
        ));
    }
    for (i, (e, o)) in exp.iter().zip(obs.iter()).enumerate() {
        cmp_entry(e, o, true).map_err(|m| {
            format!(
                "listing position {}: {} (expected order {:?}, got {:?})",
                i,
                m,
                exp.iter().map(|e| e.name.clone()).collect::<Vec<_>>(),
                obs.iter().map(|e| e.name.clone()).collect::<Vec<_>>()
            )
        })?;
    }
    Ok(())
}

fn kinds_str(k: &[ErrKind]) -> String {
    let mut v: Vec<String> = k.iter().map(|x| format!("{:?}", x)).collect();
    v.sort();
    v.dedup();
    v.join("/")
}

/// How an image is opened. Without a buffer size the public shortcuts `CompoundFile::open` /
/// `CompoundFile::open_strict` are used (they are what the properties call "permissive open" and
/// "strict open"); with one, the `OpenOptions` builder with the calls in varying order.
pub struct Opener {
    max_buf: Option<u32>,
    strict: bool,
}

impl Opener {
    pub fn open_with<F: Read + Seek>(self, io: F) -> std::io::Result<CompoundFile<F>> {
        match (self.max_buf, self.strict) {
            (None, false) => CompoundFile::open(io),
            (None, true) => CompoundFile::open_strict(io),
            (Some(_), _) => builder_options(self.max_buf, self.strict).open_with(io),
        }
    }
}

pub fn open_options(max_buf: Option<u32>, strict: bool) -> Opener {
    Opener { max_buf, strict }
}

pub fn builder_options(max_buf: Option<u32>, strict: bool) -> OpenOptions {
    let mut o = OpenOptions::new();
    // the builder calls commute: even sizes are set after strict(), odd ones before
    if strict && max_buf.map(|m| m % 2 == 0).unwrap_or(false) {
        o = o.strict();
    }
    if let Some(m) = max_buf {
        // the top 2048 values of the u32 range stand for the top of the usize range
        let size = if m >= u32::MAX - 2047 { usize::MAX - (u32::MAX - m) as usize } else { m as usize };
        o = o.max_buffer_size(size);
    }
    if strict && !max_buf.map(|m| m % 2 == 0).unwrap_or(false) {
        o = o.strict();
    }
    o
}

impl Engine {
    pub fn new(version: u8, max_buf: Option<u32>, pool: Vec<String>, oracles: Oracles) -> Result<Engine, Fail> {
        let mut precreated = false;
        let mut io = match &oracles.file_path {
            Some(p) => {
                if version == 4 {
                    // the crate's own path-based entry point creates the (version 4) file
                    // "If a file already exists at the given path, this will overwrite it":
                    // a longer file of other bytes is there already
                    std::fs::write(p, vec![0xABu8; 70_000]).map_err(|e| Fail::new("harness|file", e.to_string()))?;
                    let made = guard("cfb::create", || cfb::create(p).map(|c| drop(c)))?;
                    made.map_err(|e| Fail::new("mismatch|cfb::create|path|Ok|Err", format!("cfb::create({:?}) failed: {}", p, e)))?;
                    precreated = true;
                    let f = std::fs::OpenOptions::new().read(true).write(true).open(p).map_err(|e| Fail::new("harness|file", e.to_string()))?;
                    Io::from_file(f, p.clone())
                } else {
                    let f = std::fs::OpenOptions::new().read(true).write(true).create(true).truncate(true).open(p).map_err(|e| Fail::new("harness|file", e.to_string()))?;
                    Io::from_file(f, p.clone())
                }
            }
            None => Io::new(),
        };
        let ctl = if oracles.count_io || oracles.chop.is_some() { Some(std::sync::Arc::new(std::sync::Mutex::new(crate::backend::Ctl::default()))) } else { None };
        if let Some(c) = &ctl {
            c.lock().unwrap().chop = oracles.chop.clone();
            io = io.with_ctl(c.clone());
        }
        let peer = io.peer();
        let cfb = if precreated {
            guard("open", || open_options(max_buf, false).open_with(io))?.map_err(|e| Fail::new("mismatch|open|after_cfb_create|Ok|Err", format!("opening the file made by cfb::create failed: {}", e)))?
        } else {
            let reopen = if oracles.reopen_after_create { Some(io.peer_ctl()) } else { None };
            let made = guard("create", || Self::create_lib(io, version, max_buf))?.map_err(|e| Fail::new("mismatch|create|fresh|Ok|Err", format!("create failed: {}", e)))?;
            match reopen {
                None => made,
                Some(again) => {
                    guard("drop", move || drop(made))?;
                    guard("open", || open_options(max_buf, false).open_with(again))?.map_err(|e| Fail::new("mismatch|open|after_create|Ok|Err", format!("opening the freshly created file failed: {}", e)))?
                }
            }
        };
        Ok(Engine {
            cfb: Some(cfb),
            io: peer,
            model: Model::new(),
            handles: (0..4).map(|_| None).collect(),
            stale: Vec::new(),
            stale_since: 0,
            version,
            max_buf,
            pool,
            oracles,
            stats: Stats::default(),
            trace: Vec::new(),
            op_index: 0,
            clean_boundaries: 0,
            succ_ops: 0,
            last_header: Vec::new(),
            tables_changed: false,
            replaced_after_change: false,
            succ_mutations: 0,
            pending_refusal: false,
            freed: false,
            ctl: None,
            ever_nonzero: Vec::new(),
            ev_pred_removed: false,
            ev_removed_any: false,
            ev_slot_reused: false,
            own_writes: vec![Vec::new(); 4],
            writebacks: 0,
        })
        .map(|mut e: Engine| {
            e.ctl = ctl;
            e
        })
    }

    /// Starts from an existing image (e.g. a synthesized foreign layout) and its model.
    pub fn from_image(bytes: Vec<u8>, model: Model, version: u8, max_buf: Option<u32>, pool: Vec<String>, oracles: Oracles, strict: bool) -> Result<Engine, Fail> {
        let io = Io::from_bytes(bytes);
        let peer = io.peer();
        let cfb = guard("open", || open_options(max_buf, strict).open_with(io))?
            .map_err(|e| Fail::new(format!("mismatch|open|valid_image|Ok|Err|strict={}", strict), format!("open failed: {}", e)))?;
        Ok(Engine {
            cfb: Some(cfb),
            io: peer,
            model,
            handles: (0..4).map(|_| None).collect(),
            stale: Vec::new(),
            stale_since: 0,
            version,
            max_buf,
            pool,
            oracles,
            stats: Stats::default(),
            trace: Vec::new(),
            op_index: 0,
            clean_boundaries: 0,
            succ_ops: 0,
            last_header: Vec::new(),
            tables_changed: false,
            replaced_after_change: false,
            succ_mutations: 0,
            pending_refusal: false,
            freed: false,
            ctl: None,
            ever_nonzero: Vec::new(),
            ev_pred_removed: false,
            ev_removed_any: false,
            ev_slot_reused: false,
            own_writes: vec![Vec::new(); 4],
            writebacks: 0,
        })
    }

    /// An engine without a library object: path resolution and expectations only.
    pub fn model_only(model: Model, pool: Vec<String>) -> Engine {
        let io = Io::new();
        Engine {
            cfb: None,
            io,
            model,
            handles: (0..4).map(|_| None).collect(),
            stale: Vec::new(),
            stale_since: 0,
            version: 3,
            max_buf: None,
            pool,
            oracles: Oracles::default(),
            stats: Stats::default(),
            trace: Vec::new(),
            op_index: 0,
            clean_boundaries: 0,
            succ_ops: 0,
            last_header: Vec::new(),
            tables_changed: false,
            replaced_after_change: false,
            succ_mutations: 0,
            pending_refusal: false,
            freed: false,
            ctl: None,
            ever_nonzero: Vec::new(),
            ev_pred_removed: false,
            ev_removed_any: false,
            ev_slot_reused: false,
            own_writes: vec![Vec::new(); 4],
            writebacks: 0,
        }
    }

    fn create_lib(io: Io, version: u8, max_buf: Option<u32>) -> std::io::Result<Cfb> {
        // create_with_version uses the default buffer size; a non-default size is applied by
        // creating and then reopening with OpenOptions (the only public way for V3).
        let v = if version == 3 { Version::V3 } else { Version::V4 };
        match max_buf {
            // `CompoundFile::create` is the public shortcut for a version-4 file
            None if version == 4 => CompoundFile::create(io),
            None => CompoundFile::create_with_version(v, io),
            Some(m) => {
                if version == 4 {
                    OpenOptions::new().max_buffer_size(m as usize).create_with(io)
                } else {
                    let peer = io.peer_ctl();
                    let c = CompoundFile::create_with_version(v, io)?;
                    drop(c);
                    OpenOptions::new().max_buffer_size(m as usize).open_with(peer)
                }
            }
        }
    }

    pub fn lib(&mut self) -> &mut Cfb {
        self.cfb.as_mut().expect("library object present")
    }

    pub fn snapshot(&self) -> Vec<u8> {
        self.io.snapshot()
    }

    pub fn any_dirty(&self) -> bool {
        self.handles.iter().any(|h| h.as_ref().map(|h| h.dirty).unwrap_or(false))
    }

    pub fn handle_on(&self, names: &[String]) -> Option<usize> {
        self.handles.iter().position(|h| match h {
            Some(h) => h.path.len() == names.len() && h.path.iter().zip(names.iter()).all(|(a, b)| cfb_eq(a, b)),
            None => false,
        })
    }

    /// true if some open handle's stream lies at or below `names`
    pub fn handle_under(&self, names: &[String]) -> bool {
        self.handles.iter().any(|h| match h {
            Some(h) => h.path.len() >= names.len() && h.path.iter().zip(names.iter()).all(|(a, b)| cfb_eq(a, b)),
            None => false,
        })
    }

    // ------------------------------------------------------------------ paths

    pub(crate) fn pool_name(&self, idx: u16) -> String {
        if self.pool.is_empty() {
            "x".to_string()
        } else {
            self.pool[pick(idx, self.pool.len())].clone()
        }
    }

    pub(crate) fn candidates(&self, kind: PickKind) -> Vec<Vec<String>> {
        match kind {
            PickKind::Any => self.model.all_paths().into_iter().map(|(p, _)| p).collect(),
            PickKind::Stream => self.model.streams(),
            PickKind::Storage => self.model.storages().into_iter().skip(1).collect(),
            PickKind::StorageOrRoot => self.model.storages(),
            PickKind::AnyOrRoot => {
                let mut v = vec![Vec::new()];
                v.extend(self.model.all_paths().into_iter().map(|(p, _)| p));
                v
            }
        }
    }

    pub(crate) fn spell(&self, names: &[String], verbatim_last: bool, sp: &Spell) -> Vec<u8> {
        let n = names.len();
        let mut comps: Vec<String> = Vec::new();
        for (i, nm) in names.iter().enumerate() {
            if sp.case_mask != 0 && !(verbatim_last && i + 1 == n) {
                comps.push(case_variant(nm, sp.case_mask.rotate_left(i as u32 * 7), sp.case_pick));
            } else {
                comps.push(nm.clone());
            }
        }
        // insertions; positions are relative to the original component list
        let mut out: Vec<String> = Vec::new();
        let dot_at = sp.dot.map(|d| d as usize % (n + 1));
        let det_at = sp.detour.map(|(d, _)| d as usize % (n + 1));
        for i in 0..=n {
            if dot_at == Some(i) {
                out.push(".".to_string());
            }
            if det_at == Some(i) {
                let nm = self.pool_name(sp.detour.unwrap().1);
                // a detour through a name that is itself "." or ".." is not a detour
                if nm != "." && nm != ".." && !nm.contains('/') {
                    out.push(nm);
                    out.push("..".to_string());
                }
            }
            if i < n {
                out.push(comps[i].clone());
            }
        }
        let mut s = String::new();
        match sp.lead % 4 {
            0 => s.push('/'),
            1 => {}
            2 => s.push_str("//"),
            _ => s.push_str("./"),
        }
        s.push_str(&out.join("/"));
        if sp.trail {
            s.push('/');
        }
        if s.is_empty() {
            s.push('.');
        }
        s.into_bytes()
    }

    pub fn resolve(&self, spec: &PathSpec) -> Resolved {
        let bytes: Vec<u8> = match spec {
            PathSpec::Pick { kind, idx, spell } => {
                let c = self.candidates(*kind);
                if c.is_empty() {
                    b"/no such object".to_vec()
                } else {
                    self.spell(&c[pick(*idx, c.len())], false, spell)
                }
            }
            PathSpec::New { parent, name, spell } => {
                let c = self.model.storages();
                let mut chain = c[pick(*parent, c.len())].clone();
                chain.push(self.pool_name(*name));
                self.spell(&chain, true, spell)
            }
            PathSpec::Bad { kind, base, name } => {
                let nm = self.pool_name(*name);
                match kind {
                    BadKind::MissingParent => {
                        let c = self.model.storages();
                        let mut chain = c[pick(*base, c.len())].clone();
                        chain.push("no such parent".to_string());
                        // sometimes the leaf below the missing parent is itself invalid
                        match *name % 6 {
                            0 => chain.push("\u{1F600}".repeat(16)),
                            1 => chain.push("q:r".to_string()),
                            _ => chain.push(nm),
                        }
                        path_string(&chain).into_bytes()
                    }
                    BadKind::Missing => {
                        let c = self.model.storages();
                        let mut chain = c[pick(*base, c.len())].clone();
                        chain.push(format!("missing {}", *name % 7));
                        path_string(&chain).into_bytes()
                    }
                    BadKind::UnderStream => {
                        let c = self.model.streams();
                        if c.is_empty() {
                            b"/no such stream/x".to_vec()
                        } else {
                            let mut chain = c[pick(*base, c.len())].clone();
                            chain.push(nm);
                            path_string(&chain).into_bytes()
                        }
                    }
                    BadKind::Escape => {
                        let c = self.candidates(PickKind::AnyOrRoot);
                        let chain = c[pick(*base, c.len())].clone();
                        let mut s = path_string(&chain);
                        for _ in 0..=chain.len() {
                            s.push_str("/..");
                        }
                        if *name % 2 == 0 {
                            s.push('/');
                            s.push_str(&nm);
                        }
                        s.into_bytes()
                    }
                    BadKind::NonUtf8 => {
                        let c = self.model.storages();
                        let chain = c[pick(*base, c.len())].clone();
                        let mut b = path_string(&chain).into_bytes();
                        if !b.ends_with(b"/") {
                            b.push(b'/');
                        }
                        b.extend_from_slice(&[b'a', 0xff, 0xfe, b'b']);
                        b
                    }
                    BadKind::InvalidName => {
                        let c = self.model.storages();
                        let mut chain = c[pick(*base, c.len())].clone();
                        // over-long names that extend an existing sibling (preferably one of
                        // exactly 31 units): equal to it in the first 31 units, up to case
                        let extended = |variant: bool, suffix: char| -> Option<String> {
                            let node = self.model.get(&chain)?;
                            let kids = node.children();
                            let best = kids.iter().map(|k| crate::names::units(&k.name).len()).max()?;
                            let longest: Vec<&String> = kids.iter().filter(|k| crate::names::units(&k.name).len() == best).map(|k| &k.name).collect();
                            let base_name = longest[pick(*name, longest.len())];
                            let mut s = if variant { crate::names::case_variant(base_name, 0x5555_5555 ^ (*name as u32), *name as u8) } else { base_name.clone() };
                            while crate::names::units(&s).len() <= 31 {
                                s.push(suffix);
                            }
                            Some(s)
                        };
                        let bad = match *name % 11 {
                            8 => extended(false, 'q').unwrap_or_else(|| "x".repeat(32)),
                            9 => extended(true, 'Q').unwrap_or_else(|| "x".repeat(33)),
                            10 => extended(true, '\u{00E9}').unwrap_or_else(|| "\u{00E9}".repeat(32)),
                            0 => "a:b".to_string(),
                            1 => "back\\slash".to_string(),
                            2 => "bang!".to_string(),
                            3 => "x".repeat(32),
                            // invalid only by UTF-16 length: 16 chars, 32 units
                            4 => "\u{1F600}".repeat(16),
                            // 31 chars, 32 units
                            5 => format!("{}{}", "k".repeat(30), '\u{10000}'),
                            6 => format!("{}{}", '\u{20000}', "\u{4E00}".repeat(30)),
                            _ => format!("{}{}", nm, "y".repeat(32)),
                        };
                        chain.push(bad);
                        path_string(&chain).into_bytes()
                    }
                }
            }
            PathSpec::Raw(s) => s.clone().into_bytes(),
        };
        let norm = normalise(&bytes);
        Resolved { bytes, norm }
    }

    // ------------------------------------------------------------------ comparison helpers

    pub(crate) fn mismatch(&self, op: &str, situation: &str, expected: &str, actual: &str, detail: String) -> Fail {
        Fail::new(format!("mismatch|{}|{}|{}|{}", op, situation, expected, actual), detail)
    }

    /// Checks an `Err(kind)` or `Ok` outcome against the refusal set. Returns Ok(true) if
    /// the call succeeded and the model must apply the effect.
    pub(crate) fn check_outcome<T>(&mut self, op: &str, situation: &str, refusals: &[ErrKind], res: &std::io::Result<T>, what: &str) -> Result<bool, Fail> {
        match res {
            Ok(_) => {
                if refusals.is_empty() {
                    Ok(true)
                } else {
                    Err(self.mismatch(op, situation, &format!("Err({})", kinds_str(refusals)), "Ok", format!("{} {}: expected refusal {}, got Ok", op, what, kinds_str(refusals))))
                }
            }
            Err(e) => {
                let k = errkind(e);
                if refusals.contains(&k) {
                    self.stats.refusals += 1;
                    self.stats.bump(&format!("refused:{}:{}", op, situation));
                    Ok(false)
                } else {
                    let exp = if refusals.is_empty() { "Ok".to_string() } else { format!("Err({})", kinds_str(refusals)) };
                    Err(self.mismatch(op, situation, &exp, &format!("Err({:?})", k), format!("{} {}: expected {}, got Err({:?}: {})", op, what, exp, e.kind(), e)))
                }
            }
        }
    }

    /// Situation + refusal set for looking up an existing object.
    /// want: 0 any, 1 stream, 2 storage-or-root
    pub(crate) fn lookup_refusals(&self, r: &Resolved, want: u8) -> (String, Vec<ErrKind>, Option<Vec<String>>) {
        match &r.norm {
            NormPath::Invalid => ("invalid_path".into(), vec![ErrKind::InvalidInput], None),
            NormPath::Ok(names) => match self.model.lookup(names) {
                Found::Node(n) => {
                    if want == 1 && !n.is_stream() {
                        ("is_storage".into(), vec![ErrKind::InvalidInput], Some(names.clone()))
                    } else if want == 2 && n.is_stream() {
                        ("is_stream".into(), vec![ErrKind::InvalidInput], Some(names.clone()))
                    } else {
                        ("exists".into(), vec![], Some(names.clone()))
                    }
                }
                Found::Missing { under_stream } => {
                    let mut k = vec![ErrKind::NotFound];
                    let bad_name = names.iter().any(|n| !is_valid_name(n));
                    if under_stream || bad_name {
                        k.push(ErrKind::InvalidInput);
                    }
                    (if under_stream { "under_stream" } else if bad_name { "missing_bad_name" } else { "missing" }.into(), k, None)
                }
            },
        }
    }

    pub(crate) fn lib_entry(&mut self, path: &PathBuf) -> Result<std::io::Result<ObsEntry>, Fail> {
        let c = self.cfb.as_ref().unwrap();
        guard("entry", || c.entry(path).map(|e| obs_entry(&e)))
    }

    /// Reads the entry of a just-created/touched storage, checks its time against the
    /// clock interval and pins the exact value into the model.
    pub(crate) fn pin_times(&mut self, names: &[String], lo: u64, hi: u64, created_too: bool, op: &str) -> Result<(), Fail> {
        let p = PathBuf::from(path_string(names));
        let obs = self.lib_entry(&p)?.map_err(|e| Fail::new(format!("mismatch|{}|readback|Ok|Err", op), format!("entry({:?}) after {} failed: {}", p, op, e)))?;
        let m = obs.modified.clone().map_err(|e| Fail::new(format!("mismatch|{}|time|in_interval|unrepresentable", op), e))?;
        let c = obs.created.clone().map_err(|e| Fail::new(format!("mismatch|{}|time|in_interval|unrepresentable", op), e))?;
        let is_root = names.is_empty();
        let node = self.model.get_mut(names).unwrap();
        if let Kind::Storage { created, modified, .. } = &mut node.kind {
            if is_root && op == "touch" {
                // documentation ("no effect on the root") and code disagree: accept both
                let unchanged = time_matches(modified, m);
                if !(unchanged || (lo <= m && m <= hi)) {
                    return Err(Fail::new("mismatch|touch|root|unchanged_or_now|other", format!("root modified time {} after touch", m)));
                }
                *modified = TimeVal::Exact(m);
                return Ok(());
            }
            if !(lo <= m && m <= hi) {
                return Err(Fail::new(format!("mismatch|{}|time|in_interval|outside", op), format!("{}: modified time {} not within clock interval [{}, {}]", op, m, lo, hi)));
            }
            *modified = TimeVal::Exact(m);
            if created_too {
                if !(lo <= c && c <= hi) {
                    return Err(Fail::new(format!("mismatch|{}|time|in_interval|outside", op), format!("{}: created time {} not within clock interval [{}, {}]", op, c, lo, hi)));
                }
                *created = TimeVal::Exact(c);
            }
        }
        Ok(())
    }
}

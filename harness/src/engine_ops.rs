//! Engine: namespace / content / metadata operations.

use crate::engine::*;
use crate::model::*;
use crate::ops::*;
use crate::util::*;
use std::io::{Read, Seek, SeekFrom, Write};

fn new_storage(name: &str) -> Node {
    Node {
        name: name.to_string(),
        state: 0,
        kind: Kind::Storage { children: vec![], clsid: [0; 16], created: TimeVal::Unknown, modified: TimeVal::Unknown },
    }
}

impl Engine {
    /// Executes one op on library and model. Err = violation.
    pub fn step(&mut self, op: &Op) -> Result<(), Fail> {
        self.stats.ops_run += 1;
        // the in-memory "disk" is capped (backend.rs): very large writes are skipped once
        // the image is big, instead of running into the harness's own limit
        let big = match op {
            Op::CreateStream { data, .. } | Op::CreateNewStream { data, .. } | Op::Overwrite { data, .. } | Op::HWrite { data, .. } | Op::HWriteAll { data, .. } => data.len as usize,
            Op::SetLen { len: LenSpec::Abs(l), .. } | Op::HSetLen { len: LenSpec::Abs(l), .. } => *l as usize,
            _ => 0,
        };
        if big > (1 << 20) && self.io.len() + 2 * big > self.io.cap / 2 {
            self.stats.excluded += 1;
            return Ok(());
        }
        if let Op::HOpen { slot, .. } | Op::HCreate { slot, .. } = op {
            // the slot's previous handle is closed (and thereby flushed) by the harness
            // before the call whose effect is judged
            let s = *slot as usize % self.handles.len();
            self.close_slot(s)?;
        }
        let before = if self.oracles.bytes_on_refusal { Some(self.snapshot()) } else { None };
        let refusals_before = self.stats.refusals;
        let bytes_before = if self.oracles.track_tables || self.oracles.bytes_on_refusal { self.model_bytes() } else { 0 };
        let r = self.step_inner(op);
        if r.is_ok() {
            let refused = self.stats.refusals > refusals_before;
            if op.is_mutation() && !refused {
                self.succ_mutations += 1;
                if self.pending_refusal {
                    self.stats.bump("refusal_mid_history");
                    self.pending_refusal = false;
                }
            } else if refused && self.succ_mutations >= 1 && self.model.count() >= 3 {
                self.pending_refusal = true;
            }
            if self.oracles.shadow_nonzero {
                let d = self.io.data.lock().unwrap();
                if self.ever_nonzero.len() < d.len() {
                    self.ever_nonzero.resize(d.len(), false);
                }
                for (i, &b) in d.iter().enumerate() {
                    if b != 0 {
                        self.ever_nonzero[i] = true;
                    }
                }
            }
            if !refused {
                match op {
                    Op::RemoveStream { .. } | Op::RemoveStorage { .. } | Op::RemoveStorageAll { .. } => self.ev_removed_any = true,
                    Op::CreateStream { .. } | Op::CreateNewStream { .. } | Op::CreateStorage { .. } | Op::HCreate { .. } => {
                        if self.ev_removed_any {
                            self.ev_slot_reused = true;
                        }
                    }
                    _ => {}
                }
            }
            if self.oracles.track_tables {
                let after = self.model_bytes();
                if after < bytes_before {
                    self.freed = true;
                } else if after > bytes_before && self.freed {
                    self.stats.bump("freed_then_allocated");
                }
            }
        }
        if let (Ok(()), Some(b)) = (&r, before) {
            if self.stats.refusals > refusals_before {
                let after = self.snapshot();
                if after != b {
                    let first = b.iter().zip(after.iter()).position(|(x, y)| x != y).unwrap_or(b.len().min(after.len()));
                    return Err(Fail::new(
                        format!("refusal_changed_bytes|{}", op.kind()),
                        format!("refused {} changed the byte image (len {} -> {}, first difference at offset {})", op.kind(), b.len(), after.len(), first),
                    ));
                }
            }
        }
        r
    }

    fn step_inner(&mut self, op: &Op) -> Result<(), Fail> {
        match op {
            Op::CreateStorage { p } => {
                let r = self.resolve(p);
                self.trace.push(format!("create_storage({:?})", r.show()));
                let path = r.path();
                let lo = now_ft_floor();
                let res = guard("create_storage", || self.lib().create_storage(&path))?;
                let hi = now_ft_floor();
                match &r.norm {
                    NormPath::Invalid => {
                        self.check_outcome("create_storage", "invalid_path", &[ErrKind::InvalidInput], &res, &r.show())?;
                    }
                    NormPath::Ok(names) => {
                        let plan = self.model.plan_create(names, false);
                        let sit = create_situation(&plan, self, names);
                        if self.check_outcome("create_storage", &sit, &plan.refusals, &res, &r.show())? {
                            self.model.insert(&plan.parent, new_storage(&plan.name));
                            if self.oracles.pin_new_times {
                                self.force_times(names)?;
                            } else {
                                self.pin_times(names, lo, hi, true, "create_storage")?;
                            }
                        }
                    }
                }
            }
            Op::CreateStorageAll { p } => {
                let r = self.resolve(p);
                self.trace.push(format!("create_storage_all({:?})", r.show()));
                let path = r.path();
                let lo = now_ft_floor();
                let res = guard("create_storage_all", || self.lib().create_storage_all(&path))?;
                let hi = now_ft_floor();
                match &r.norm {
                    NormPath::Invalid => {
                        self.check_outcome("create_storage_all", "invalid_path", &[ErrKind::InvalidInput], &res, &r.show())?;
                    }
                    NormPath::Ok(names) => {
                        // find refusal reasons over all prefixes; no effect unless all succeed
                        let mut refusals = Vec::new();
                        let mut to_create: Vec<Vec<String>> = Vec::new();
                        let mut sit = "ok".to_string();
                        for l in 1..=names.len() {
                            let prefix = &names[..l];
                            match self.model.lookup(prefix) {
                                Found::Node(n) => {
                                    if n.is_stream() {
                                        refusals.push(ErrKind::AlreadyExists);
                                        sit = "stream_in_the_way".into();
                                        if l < names.len() {
                                            // deeper components are under a stream
                                            refusals.push(ErrKind::NotFound);
                                            refusals.push(ErrKind::InvalidInput);
                                        }
                                        break;
                                    }
                                }
                                Found::Missing { .. } => {
                                    if !is_valid(&prefix[l - 1]) {
                                        refusals.push(ErrKind::InvalidInput);
                                        sit = "invalid_name".into();
                                    }
                                    to_create.push(prefix.to_vec());
                                }
                            }
                        }
                        if self.check_outcome("create_storage_all", &sit, &refusals, &res, &r.show())? {
                            for c in to_create.iter() {
                                let (name, parent) = c.split_last().unwrap();
                                self.model.insert(parent, new_storage(name));
                                if self.oracles.pin_new_times {
                                    self.force_times(c)?;
                                } else {
                                    self.pin_times(c, lo, hi, true, "create_storage_all")?;
                                }
                            }
                            if to_create.len() > 1 {
                                self.stats.bump("create_all_multi");
                            }
                        }
                    }
                }
            }
            Op::RemoveStorage { p } => {
                let r = self.resolve(p);
                if let NormPath::Ok(names) = &r.norm {
                    if !names.is_empty() && self.handle_under(names) && self.model.get(names).map(|n| !n.is_stream()).unwrap_or(false) {
                        // would only be refused anyway (non-empty)
                    }
                }
                self.trace.push(format!("remove_storage({:?})", r.show()));
                self.note_removal_shape(&r);
                let path = r.path();
                let res = guard("remove_storage", || self.lib().remove_storage(&path))?;
                let (sit, refusals, names) = self.removal_plan(&r, false);
                if self.check_outcome("remove_storage", &sit, &refusals, &res, &r.show())? {
                    self.model.remove(&names.unwrap());
                }
            }
            Op::RemoveStorageAll { p } => {
                let r = self.resolve(p);
                if let NormPath::Ok(names) = &r.norm {
                    if self.handle_under(names) {
                        self.stats.excluded += 1;
                        self.trace.push(format!("(skipped remove_storage_all({:?}): open handle below)", r.show()));
                        return Ok(());
                    }
                }
                self.trace.push(format!("remove_storage_all({:?})", r.show()));
                let path = r.path();
                let res = guard("remove_storage_all", || self.lib().remove_storage_all(&path))?;
                match &r.norm {
                    NormPath::Invalid => {
                        self.check_outcome("remove_storage_all", "invalid_path", &[ErrKind::InvalidInput], &res, &r.show())?;
                    }
                    NormPath::Ok(names) => match self.model.lookup(names) {
                        Found::Missing { .. } => {
                            let (sit, k, _) = self.lookup_refusals(&r, 0);
                            self.check_outcome("remove_storage_all", &sit, &k, &res, &r.show())?;
                        }
                        Found::Node(n) => {
                            if n.is_stream() {
                                // undocumented: either refused (no effect) or removes that stream
                                match &res {
                                    Ok(()) => {
                                        self.model.remove(names);
                                        self.stats.bump("remove_storage_all_on_stream_ok");
                                    }
                                    Err(e) if errkind(e) == ErrKind::InvalidInput => {
                                        self.stats.refusals += 1;
                                    }
                                    Err(e) => {
                                        return Err(self.mismatch("remove_storage_all", "is_stream", "Ok_or_InvalidInput", &format!("Err({:?})", errkind(e)), format!("remove_storage_all({:?}) on a stream: {}", r.show(), e)));
                                    }
                                }
                            } else if self.check_outcome("remove_storage_all", "exists", &[], &res, &r.show())? {
                                if names.is_empty() {
                                    if let Some(ch) = self.model.root.children_mut() {
                                        ch.clear();
                                    }
                                } else {
                                    self.model.remove(names);
                                }
                            }
                        }
                    },
                }
            }
            Op::CreateStream { p, data } | Op::CreateNewStream { p, data } => {
                let overwrite = matches!(op, Op::CreateStream { .. });
                let opk = if overwrite { "create_stream" } else { "create_new_stream" };
                let r = self.resolve(p);
                if !self.stale.is_empty() && self.op_index >= self.stale_since + 4 {
                    // old stale handles are closed first (their slot is free or a storage's)
                    for h in std::mem::take(&mut self.stale) {
                        guard("h_close_stale", move || drop(h))?;
                    }
                    self.trace.push("(stale handles dropped)".into());
                }
                if !self.stale.is_empty() {
                    // no stream is created while a handle of a removed stream is alive: which
                    // object such a handle means once its directory slot holds a stream again
                    // is not specified
                    self.stats.excluded += 1;
                    self.trace.push(format!("(skipped {}({:?}): a stale handle exists)", opk, r.show()));
                    return Ok(());
                }
                if let NormPath::Ok(names) = &r.norm {
                    if self.handle_on(names).is_some() {
                        self.stats.excluded += 1;
                        self.trace.push(format!("(skipped {}({:?}): open handle on it)", opk, r.show()));
                        return Ok(());
                    }
                }
                self.trace.push(format!("{}({:?}) + write_all({} bytes, seed {})", opk, r.show(), data.len, data.seed));
                let path = r.path();
                let bytes = data.bytes();
                let res = guard(opk, || -> std::io::Result<std::io::Result<()>> {
                    let lib = self.lib();
                    let mut s = if overwrite { lib.create_stream(&path)? } else { lib.create_new_stream(&path)? };
                    let w = s.write_all(&bytes).and_then(|_| s.flush());
                    drop(s);
                    Ok(w)
                })?;
                match &r.norm {
                    NormPath::Invalid => {
                        self.check_outcome(opk, "invalid_path", &[ErrKind::InvalidInput], &res, &r.show())?;
                    }
                    NormPath::Ok(names) => {
                        let plan = self.model.plan_create(names, overwrite);
                        let sit = create_situation(&plan, self, names);
                        if self.check_outcome(opk, &sit, &plan.refusals, &res, &r.show())? {
                            if let Ok(Err(e)) = &res {
                                return Err(self.mismatch(opk, "write_all", "Ok", "Err", format!("write_all/flush on new stream {:?} failed: {}", r.show(), e)));
                            }
                            if plan.existing_is_stream == Some(true) {
                                let node = self.model.get_mut(names).unwrap();
                                node.kind = Kind::Stream { data: bytes };
                                self.stats.bump("create_stream_overwrite");
                                self.settle_replaced_state(names)?;
                            } else {
                                self.model.insert(&plan.parent, Node { name: plan.name.clone(), state: 0, kind: Kind::Stream { data: bytes } });
                            }
                        }
                    }
                }
            }
            Op::RemoveStream { p } => {
                let r = self.resolve(p);
                if let NormPath::Ok(names) = &r.norm {
                    if let (true, Some(slot)) = (self.oracles.stale_handles, self.handle_on(names)) {
                        // the handle is detached and kept: from now on it must touch nothing
                        let h = self.handles[slot].take().unwrap();
                        self.own_writes[slot].clear();
                        self.trace.push(format!("(h{} on {:?} becomes stale[{}]{})", slot, r.show(), self.stale.len(), if h.dirty { ", with unflushed bytes" } else { "" }));
                        self.stale.push(h.stream);
                        self.stale_since = self.op_index;
                        self.stats.bump("handle_made_stale");
                    }
                    if self.handle_on(names).is_some() {
                        self.stats.excluded += 1;
                        self.trace.push(format!("(skipped remove_stream({:?}): open handle on it)", r.show()));
                        return Ok(());
                    }
                }
                self.trace.push(format!("remove_stream({:?})", r.show()));
                self.note_removal_shape(&r);
                let path = r.path();
                let res = guard("remove_stream", || self.lib().remove_stream(&path))?;
                let (sit, refusals, names) = self.removal_plan(&r, true);
                if self.check_outcome("remove_stream", &sit, &refusals, &res, &r.show())? {
                    self.model.remove(&names.unwrap());
                }
            }
            Op::ReadAll { p } => {
                let r = self.resolve(p);
                if let NormPath::Ok(names) = &r.norm {
                    if let Some(h) = self.handle_on(names) {
                        if self.handles[h].as_ref().unwrap().dirty {
                            self.stats.excluded += 1;
                            return Ok(());
                        }
                    }
                }
                self.trace.push(format!("open_stream({:?}) + read_to_end", r.show()));
                let path = r.path();
                let res = guard("read_all", || -> std::io::Result<std::io::Result<(u64, Vec<u8>)>> {
                    let mut s = self.lib().open_stream(&path)?;
                    let l = s.len();
                    let mut v = Vec::new();
                    Ok(s.read_to_end(&mut v).map(|_| (l, v)))
                })?;
                let (sit, refusals, names) = self.lookup_refusals(&r, 1);
                if self.check_outcome("open_stream", &sit, &refusals, &res, &r.show())? {
                    let names = names.unwrap();
                    let exp = match &self.model.get(&names).unwrap().kind {
                        Kind::Stream { data } => data.clone(),
                        _ => unreachable!(),
                    };
                    match res.unwrap() {
                        Err(e) => return Err(self.mismatch("read_to_end", "exists", "Ok", "Err", format!("read_to_end({:?}) failed: {}", r.show(), e))),
                        Ok((l, v)) => {
                            if l != exp.len() as u64 {
                                return Err(self.mismatch("stream_len", "exists", "model_len", "other", format!("Stream::len() of {:?}: expected {}, got {}", r.show(), exp.len(), l)));
                            }
                            if v != exp {
                                return Err(self.mismatch("read_to_end", "exists", "model_bytes", "other_bytes", describe_diff(&r.show(), &exp, &v)));
                            }
                        }
                    }
                }
            }
            Op::Overwrite { p, frac, data } => {
                let r = self.resolve(p);
                if let NormPath::Ok(names) = &r.norm {
                    if self.handle_on(names).is_some() {
                        self.stats.excluded += 1;
                        return Ok(());
                    }
                }
                let (sit, refusals, names) = self.lookup_refusals(&r, 1);
                let cur_len = names.as_ref().and_then(|n| self.model.get(n)).map(|n| match &n.kind { Kind::Stream { data } => data.len() as u64, _ => 0 }).unwrap_or(0);
                let off = (cur_len * (*frac as u64 + 1)) >> 16;
                self.trace.push(format!("open_stream({:?}) + seek({}) + write_all({} bytes, seed {})", r.show(), off, data.len, data.seed));
                let path = r.path();
                let bytes = data.bytes();
                let res = guard("overwrite", || -> std::io::Result<std::io::Result<()>> {
                    let mut s = self.lib().open_stream(&path)?;
                    let w = s.seek(SeekFrom::Start(off)).and_then(|_| s.write_all(&bytes)).and_then(|_| s.flush());
                    drop(s);
                    Ok(w)
                })?;
                if self.check_outcome("open_stream", &sit, &refusals, &res, &r.show())? {
                    if let Ok(Err(e)) = &res {
                        return Err(self.mismatch("overwrite", "exists", "Ok", "Err", format!("seek+write_all on {:?} failed: {}", r.show(), e)));
                    }
                    let node = self.model.get_mut(&names.unwrap()).unwrap();
                    if let Kind::Stream { data: d } = &mut node.kind {
                        let end = off as usize + bytes.len();
                        if d.len() < end {
                            d.resize(end, 0);
                        }
                        d[off as usize..end].copy_from_slice(&bytes);
                    }
                }
            }
            Op::SetLen { p, len } => {
                let r = self.resolve(p);
                if let NormPath::Ok(names) = &r.norm {
                    if self.handle_on(names).is_some() {
                        self.stats.excluded += 1;
                        return Ok(());
                    }
                }
                let (sit, refusals, names) = self.lookup_refusals(&r, 1);
                let cur_len = names.as_ref().and_then(|n| self.model.get(n)).map(|n| match &n.kind { Kind::Stream { data } => data.len() as u64, _ => 0 }).unwrap_or(0);
                let new_len = resolve_len(len, cur_len);
                self.trace.push(format!("open_stream({:?}) + set_len({}) [was {}]", r.show(), new_len, cur_len));
                let path = r.path();
                let res = guard("set_len", || -> std::io::Result<std::io::Result<()>> {
                    let mut s = self.lib().open_stream(&path)?;
                    let w = s.set_len(new_len);
                    drop(s);
                    Ok(w)
                })?;
                if self.check_outcome("open_stream", &sit, &refusals, &res, &r.show())? {
                    if let Ok(Err(e)) = &res {
                        return Err(self.mismatch("set_len", "exists", "Ok", "Err", format!("set_len({}) on {:?} failed: {}", new_len, r.show(), e)));
                    }
                    let names = names.unwrap();
                    self.note_resize(cur_len, new_len);
                    if let Kind::Stream { data: d } = &mut self.model.get_mut(&names).unwrap().kind {
                        d.resize(new_len as usize, 0);
                    }
                    if self.oracles.grow_check && new_len > cur_len {
                        self.grow_check(&names, cur_len, new_len)?;
                    }
                }
            }
            Op::List { p } => {
                let r = self.resolve(p);
                self.trace.push(format!("read_storage({:?})", r.show()));
                let path = r.path();
                let c = self.cfb.as_ref().unwrap();
                let res = guard("read_storage", || c.read_storage(&path).map(|it| it.map(|e| obs_entry(&e)).collect::<Vec<_>>()))?;
                let (sit, refusals, names) = self.lookup_refusals(&r, 2);
                if self.check_outcome("read_storage", &sit, &refusals, &res, &r.show())? {
                    let mut exp = self.model.list(&names.unwrap()).unwrap();
                    self.mask_list(&mut exp);
                    cmp_entries(&exp, res.as_ref().unwrap()).map_err(|m| self.mismatch("read_storage", "exists", "model_listing", "other", format!("read_storage({:?}): {}", r.show(), m)))?;
                }
            }
            Op::ListRoot => {
                self.trace.push("read_root_storage()".into());
                let c = self.cfb.as_ref().unwrap();
                let res = guard("read_root_storage", || c.read_root_storage().map(|e| obs_entry(&e)).collect::<Vec<_>>())?;
                let mut exp = self.model.list(&[]).unwrap();
                self.mask_list(&mut exp);
                cmp_entries(&exp, &res).map_err(|m| self.mismatch("read_root_storage", "exists", "model_listing", "other", format!("read_root_storage(): {}", m)))?;
            }
            Op::Walk => {
                self.trace.push("walk()".into());
                let c = self.cfb.as_ref().unwrap();
                let res = guard("walk", || c.walk().map(|e| obs_entry(&e)).collect::<Vec<_>>())?;
                let exp = self.masked_walk(&[]);
                cmp_entries(&exp, &res).map_err(|m| self.mismatch("walk", "exists", "model_walk", "other", format!("walk(): {}", m)))?;
            }
            Op::WalkStorage { p } => {
                let r = self.resolve(p);
                self.trace.push(format!("walk_storage({:?})", r.show()));
                let path = r.path();
                let c = self.cfb.as_ref().unwrap();
                let res = guard("walk_storage", || c.walk_storage(&path).map(|it| it.map(|e| obs_entry(&e)).collect::<Vec<_>>()))?;
                let (sit, mut refusals, names) = self.lookup_refusals(&r, 0);
                let on_stream = names.as_ref().and_then(|n| self.model.get(n)).map(|n| n.is_stream()).unwrap_or(false);
                if on_stream {
                    // undocumented for streams: InvalidInput, or yields just that stream
                    if let Err(e) = &res {
                        if errkind(e) == ErrKind::InvalidInput {
                            return Ok(());
                        }
                    }
                    refusals.clear();
                }
                if self.check_outcome("walk_storage", &sit, &refusals, &res, &r.show())? {
                    let exp = self.masked_walk(&names.unwrap());
                    cmp_entries(&exp, res.as_ref().unwrap()).map_err(|m| self.mismatch("walk_storage", "exists", "model_walk", "other", format!("walk_storage({:?}): {}", r.show(), m)))?;
                }
            }
            Op::Exists { p } | Op::IsStream { p } | Op::IsStorage { p } => {
                let r = self.resolve(p);
                let path = r.path();
                let c = self.cfb.as_ref().unwrap();
                let (opk, got) = match op {
                    Op::Exists { .. } => ("exists", guard("exists", || c.exists(&path))?),
                    Op::IsStream { .. } => ("is_stream", guard("is_stream", || c.is_stream(&path))?),
                    _ => ("is_storage", guard("is_storage", || c.is_storage(&path))?),
                };
                self.trace.push(format!("{}({:?}) -> {}", opk, r.show(), got));
                let node = match &r.norm {
                    NormPath::Ok(names) => self.model.get(names),
                    NormPath::Invalid => None,
                };
                let exp = match op {
                    Op::Exists { .. } => node.is_some(),
                    Op::IsStream { .. } => node.map(|n| n.is_stream()).unwrap_or(false),
                    _ => node.map(|n| !n.is_stream()).unwrap_or(false),
                };
                if exp != got {
                    return Err(self.mismatch(opk, "query", &exp.to_string(), &got.to_string(), format!("{}({:?}): expected {}, got {}", opk, r.show(), exp, got)));
                }
            }
            Op::Entry { p } => {
                let r = self.resolve(p);
                self.trace.push(format!("entry({:?})", r.show()));
                let res = self.lib_entry(&r.path())?;
                let (sit, refusals, names) = self.lookup_refusals(&r, 0);
                if self.check_outcome("entry", &sit, &refusals, &res, &r.show())? {
                    let names = names.unwrap();
                    let mut exp = self.model.entry_info(&names).unwrap();
                    self.mask_dirty(&names, &mut exp);
                    cmp_entry(&exp, res.as_ref().unwrap(), false).map_err(|m| self.mismatch("entry", "exists", "model_entry", "other", format!("entry({:?}): {}", r.show(), m)))?;
                }
            }
            Op::RootEntry => {
                self.trace.push("root_entry()".into());
                let c = self.cfb.as_ref().unwrap();
                let obs = guard("root_entry", || obs_entry(&c.root_entry()))?;
                let v = guard("version", || c.version())?;
                let vn = match v {
                    cfb::Version::V3 => 3u8,
                    cfb::Version::V4 => 4u8,
                };
                if vn != self.version {
                    return Err(self.mismatch("version", "always", &self.version.to_string(), &vn.to_string(), format!("version() = {}, file was created as version {}", vn, self.version)));
                }
                let exp = self.model.entry_info(&[]).unwrap();
                cmp_entry(&exp, &obs, false).map_err(|m| self.mismatch("root_entry", "exists", "model_entry", "other", format!("root_entry(): {}", m)))?;
            }
            Op::SetClsid { p, clsid } => {
                let r = self.resolve(p);
                self.trace.push(format!("set_storage_clsid({:?}, {})", r.show(), hex(clsid)));
                let path = r.path();
                let id = uuid::Uuid::from_bytes(*clsid);
                let res = guard("set_storage_clsid", || self.lib().set_storage_clsid(&path, id))?;
                let (sit, refusals, names) = self.lookup_refusals(&r, 2);
                if self.check_outcome("set_storage_clsid", &sit, &refusals, &res, &r.show())? {
                    if let Kind::Storage { clsid: c, .. } = &mut self.model.get_mut(&names.unwrap()).unwrap().kind {
                        *c = *clsid;
                    }
                }
            }
            Op::SetStateBits { p, bits } => {
                let r = self.resolve(p);
                self.trace.push(format!("set_state_bits({:?}, {:#x})", r.show(), bits));
                let path = r.path();
                let res = guard("set_state_bits", || self.lib().set_state_bits(&path, *bits))?;
                let (sit, refusals, names) = self.lookup_refusals(&r, 0);
                if self.check_outcome("set_state_bits", &sit, &refusals, &res, &r.show())? {
                    self.model.get_mut(&names.unwrap()).unwrap().state = *bits;
                }
            }
            Op::SetCreated { p, t } | Op::SetModified { p, t } => {
                let is_created = matches!(op, Op::SetCreated { .. });
                let opk = if is_created { "set_created_time" } else { "set_modified_time" };
                let r = self.resolve(p);
                let st = match systime_from_spec(t.neg, t.secs, t.nanos) {
                    Some(s) => s,
                    None => {
                        self.stats.excluded += 1;
                        return Ok(());
                    }
                };
                self.trace.push(format!("{}({:?}, {}{}s+{}ns)", opk, r.show(), if t.neg { "-" } else { "+" }, t.secs, t.nanos));
                let path = r.path();
                let res = guard(opk, || if is_created { self.lib().set_created_time(&path, st) } else { self.lib().set_modified_time(&path, st) })?;
                let (sit, refusals, names) = self.lookup_refusals(&r, 0);
                if self.check_outcome(opk, &sit, &refusals, &res, &r.show())? {
                    let ft = filetime_from_unix(t.neg, t.secs, t.nanos);
                    if let Kind::Storage { created, modified, .. } = &mut self.model.get_mut(&names.unwrap()).unwrap().kind {
                        if is_created {
                            *created = TimeVal::Exact(ft);
                        } else {
                            *modified = TimeVal::Exact(ft);
                        }
                    }
                    self.stats.bump("time_set");
                }
            }
            Op::Touch { p } => {
                let r = self.resolve(p);
                self.trace.push(format!("touch({:?})", r.show()));
                let path = r.path();
                let lo = now_ft_floor();
                let res = guard("touch", || self.lib().touch(&path))?;
                let hi = now_ft_floor();
                let (sit, refusals, names) = self.lookup_refusals(&r, 0);
                if self.check_outcome("touch", &sit, &refusals, &res, &r.show())? {
                    let names = names.unwrap();
                    if !self.model.get(&names).unwrap().is_stream() {
                        self.pin_times(&names, lo, hi, false, "touch")?;
                    }
                }
            }
            Op::Flush => {
                self.trace.push("flush()".into());
                let res = guard("flush", || self.lib().flush())?;
                self.check_outcome("flush", "always", &[], &res, "")?;
            }
            Op::Reopen { strict } => {
                self.reopen(*strict, "reopen_op")?;
            }
            _ => return self.step_handle(op),
        }
        Ok(())
    }

    fn removal_plan(&self, r: &Resolved, want_stream: bool) -> (String, Vec<ErrKind>, Option<Vec<String>>) {
        match &r.norm {
            NormPath::Invalid => ("invalid_path".into(), vec![ErrKind::InvalidInput], None),
            NormPath::Ok(names) => match self.model.lookup(names) {
                Found::Node(n) => {
                    if names.is_empty() {
                        ("root".into(), vec![ErrKind::InvalidInput], None)
                    } else if n.is_stream() != want_stream {
                        (if want_stream { "is_storage" } else { "is_stream" }.into(), vec![ErrKind::InvalidInput], None)
                    } else if !want_stream && !n.children().is_empty() {
                        ("non_empty".into(), vec![ErrKind::InvalidInput], None)
                    } else {
                        ("exists".into(), vec![], Some(names.clone()))
                    }
                }
                Found::Missing { .. } => {
                    let (s, k, _) = self.lookup_refusals(r, 0);
                    (s, k, None)
                }
            },
        }
    }

    /// C18: sets both times of a new storage to a value that depends only on the history.
    pub fn force_times(&mut self, names: &[String]) -> Result<(), Fail> {
        let secs = 1_500_000_000u64 + self.op_index as u64 * 86_400 + names.len() as u64;
        let t = systime_from_spec(false, secs, 0).unwrap();
        let p = std::path::PathBuf::from(path_string(names));
        let r1 = guard("set_created_time", || self.lib().set_created_time(&p, t))?;
        let r2 = guard("set_modified_time", || self.lib().set_modified_time(&p, t))?;
        if let Err(e) = r1.and(r2) {
            return Err(Fail::new("mismatch|set_created_time|new_storage|Ok|Err", format!("pinning times of {:?} failed: {}", p, e)));
        }
        let ft = filetime_from_unix(false, secs, 0);
        if let Kind::Storage { created, modified, .. } = &mut self.model.get_mut(names).unwrap().kind {
            *created = TimeVal::Exact(ft);
            *modified = TimeVal::Exact(ft);
        }
        Ok(())
    }

    /// "it will be replaced by the new stream": the documentation does not say whether the
    /// user-defined state bits of the replaced stream survive. Either the old value or 0 is
    /// accepted; what is observed is pinned.
    pub fn settle_replaced_state(&mut self, names: &[String]) -> Result<(), Fail> {
        let old = self.model.get(names).unwrap().state;
        let old_name = self.model.get(names).unwrap().name.clone();
        let new_name = names.last().cloned().unwrap_or_default();
        if old == 0 && old_name == new_name {
            return Ok(());
        }
        let p = std::path::PathBuf::from(path_string(names));
        let obs = self.lib_entry(&p)?.map_err(|e| Fail::new("mismatch|entry|after_replace|Ok|Err", format!("entry({:?}) after create_stream failed: {}", p, e)))?;
        if obs.state != old && obs.state != 0 {
            return Err(Fail::new("mismatch|create_stream|replace_state|old_or_zero|other", format!("state bits of replaced stream {:?}: {:#x} (was {:#x})", p, obs.state, old)));
        }
        // "replaces the first": the stored spelling may stay or become the new one
        if obs.name != old_name && obs.name != new_name {
            return Err(Fail::new("mismatch|create_stream|replace_name|old_or_new|other", format!("name of replaced stream {:?}: {:?} (was {:?}, requested {:?})", p, obs.name, old_name, new_name)));
        }
        let node = self.model.get_mut(names).unwrap();
        node.state = obs.state;
        node.name = obs.name.clone();
        Ok(())
    }

    pub fn model_bytes(&self) -> u64 {
        fn rec(n: &Node) -> u64 {
            match &n.kind {
                Kind::Stream { data } => data.len() as u64 + 1,
                Kind::Storage { children, .. } => 1 + children.iter().map(rec).sum::<u64>(),
            }
        }
        rec(&self.model.root)
    }

    /// Statistics: shape of the node about to be removed, measured on the byte image.
    pub fn note_removal_shape(&mut self, r: &Resolved) {
        if !self.oracles.measure_shapes || self.any_dirty() {
            return;
        }
        if let NormPath::Ok(names) = &r.norm {
            if names.is_empty() || self.model.get(names).is_none() {
                return;
            }
            if let Ok(p) = crate::refparse::parse(&self.snapshot()) {
                if let Some(id) = p.find_id(names) {
                    if p.has_two_children(id) {
                        self.stats.bump("removal_two_children");
                        if let Some(pred) = p.predecessor(id) {
                            let held = self.handles.iter().flatten().any(|h| p.find_id(&h.path) == Some(pred));
                            if held {
                                self.stats.bump("removal_two_children_pred_has_handle");
                                self.ev_pred_removed = true;
                            }
                        }
                    } else {
                        self.stats.bump("removal_zero_or_one_child");
                    }
                }
            }
        }
    }

    /// Model walk with lengths of dirty-handle streams masked.
    pub fn masked_walk(&self, names: &[String]) -> Vec<EntryInfo> {
        let mut w = self.model.walk(names).unwrap();
        self.mask_list(&mut w);
        w
    }

    pub fn mask_list(&self, w: &mut Vec<EntryInfo>) {
        for h in self.handles.iter().flatten() {
            if h.dirty {
                let hp = path_string(&h.path);
                for e in w.iter_mut() {
                    if e.is_stream && e.path == hp {
                        e.len = None;
                    }
                }
            }
        }
    }

    pub fn mask_dirty(&self, names: &[String], e: &mut EntryInfo) {
        if let Some(h) = self.handle_on(names) {
            if self.handles[h].as_ref().unwrap().dirty {
                e.len = None;
            }
        }
    }

    pub fn note_resize(&mut self, old: u64, new: u64) {
        if (old < 4096) != (new < 4096) && old != new {
            self.stats.bump(if new >= 4096 { "cross_cutoff_up" } else { "cross_cutoff_down" });
        }
        if new > old {
            self.stats.bump("grow");
        } else if new < old {
            self.stats.bump("shrink");
        }
    }
}

fn is_valid(name: &str) -> bool {
    crate::names::is_valid_name(name)
}

fn create_situation(plan: &CreatePlan, eng: &Engine, names: &[String]) -> String {
    if plan.refusals.is_empty() {
        return if plan.existing_is_stream == Some(true) { "replace_stream".into() } else { "new".into() };
    }
    if plan.existing_is_stream.is_some() {
        return if plan.existing_is_stream == Some(true) { "stream_exists".into() } else { "storage_exists".into() };
    }
    let parent = &names[..names.len() - 1];
    match eng.model.lookup(parent) {
        Found::Node(p) if p.is_stream() => "parent_is_stream".into(),
        Found::Node(_) => "invalid_name".into(),
        Found::Missing { .. } => "parent_missing".into(),
    }
}

pub fn resolve_len(l: &LenSpec, cur: u64) -> u64 {
    match l {
        LenSpec::Abs(v) => *v as u64,
        LenSpec::Rel(d) => (cur as i64 + *d as i64).max(0) as u64,
    }
}

pub fn describe_diff(what: &str, exp: &[u8], got: &[u8]) -> String {
    let first = exp.iter().zip(got.iter()).position(|(a, b)| a != b).unwrap_or(exp.len().min(got.len()));
    let ndiff = exp.iter().zip(got.iter()).filter(|(a, b)| a != b).count();
    format!(
        "bytes of {:?} differ: expected len {}, got len {}; first difference at offset {} (expected {:?}, got {:?}); {} differing bytes in the common prefix",
        what,
        exp.len(),
        got.len(),
        first,
        exp.get(first),
        got.get(first),
        ndiff
    )
}

//! C03 - every produced image is well-formed by the independent checker.

use crate::engine::{Oracles, Stats};
use crate::gen::*;
use crate::ops::*;
use crate::props::hist::history_report;
use crate::runner::*;
use proptest::collection::vec;
use proptest::prelude::*;
use serde_json::Value;

pub fn oracles(every: usize) -> Oracles {
    Oracles { checker_every: every, track_tables: true, final_reopen: true, ..Oracles::default() }
}

/// Large-file profile: big streams (several FAT sectors, DIFAT sectors in V3), many small
/// streams (several MiniFAT and directory sectors), churn.
fn large_case(tier: Tier) -> BoxedStrategy<Case> {
    let big = if tier == Tier::Thorough { 9_000_000u32 } else { 1_200_000u32 };
    let big_size = prop_oneof![6 => 60_000u32..200_000, 4 => 200_000u32..big, 2 => Just(65_536u32), 2 => Just(65_024u32), 1 => 7_150_000u32..7_400_000];
    let many = prop_oneof![
        6 => (new_path(0), data_strategy(600)).prop_map(|(p, data)| Op::CreateStream { p, data }),
        2 => (new_path(0), big_size.clone(), any::<u8>()).prop_map(|(p, len, seed)| Op::CreateStream { p, data: DataSpec { len, seed } }),
        3 => pick_path(PickKind::Stream, 0).prop_map(|p| Op::RemoveStream { p }),
        2 => (pick_path(PickKind::Stream, 0), len_spec(12288)).prop_map(|(p, len)| Op::SetLen { p, len }),
        1 => (pick_path(PickKind::Stream, 0), big_size).prop_map(|(p, len)| Op::SetLen { p, len: LenSpec::Abs(len) }),
        2 => new_path(0).prop_map(|p| Op::CreateStorage { p }),
        1 => pick_path(PickKind::Storage, 0).prop_map(|p| Op::RemoveStorageAll { p }),
        1 => any::<bool>().prop_map(|strict| Op::Reopen { strict }),
    ];
    // a pool of many distinct short names so that hundreds of entries can coexist
    let pool = Just((0..400).map(|i| format!("n{:03}", i)).collect::<Vec<String>>());
    (proptest::sample::select(vec![3u8, 3, 4]), pool, vec(many, 20..=if tier == Tier::Thorough { 400 } else { 160 }))
        .prop_map(|(version, pool, ops)| Case { version, max_buf: None, start: Start::Fresh, pool, ops })
        .boxed()
}

fn is_large(c: &Case) -> bool {
    c.pool.len() >= 400
}

fn nontrivial(s: &Stats, _c: &Case) -> bool {
    s.has("multi_table_image") && s.has("freed_then_allocated")
}

fn report(c: &Case) -> CaseReport {
    let every = if is_large(c) { 8 } else { 1 };
    let out = crate::run::run_case(c, oracles(every), None);
    // classify the final image with the parser: several FAT / DIFAT / dir / MiniFAT sectors
    let mut rep = history_report_from(c, out);
    rep
}

fn history_report_from(c: &Case, out: crate::run::Outcome) -> CaseReport {
    let s = &out.stats;
    let mut classes: Vec<String> = s.classes.keys().cloned().collect();
    classes.push(format!("version_{}", c.version));
    if is_large(c) {
        classes.push("large_profile".into());
    }
    let nt = out.result.is_ok() && s.has("multi_table_image") && s.has("freed_then_allocated");
    CaseReport { fail: out.result.err(), nontrivial: nt, classes, excluded: s.excluded, evaluations: 1, nontrivial_items: vec![], trace: out.trace }
}

fn strategy(tier: Tier) -> BoxedStrategy<Case> {
    let p = crate::props::c02::profile(tier);
    let large_w = if tier == Tier::Thorough { 2 } else { 1 };
    prop_oneof![
        12 => case_strategy(&p, crate::synth::AVAILABLE),
        large_w => large_case(tier),
    ]
    .boxed()
}

fn worker(ctx: &Ctx) -> WorkerResult {
    run_worker(ctx, strategy(ctx.tier), report)
}

fn solo(v: &Value) -> Result<CaseReport, String> {
    run_solo(v, report)
}

pub fn def() -> PropDef {
    PropDef {
        id: "C03",
        level: "exploration",
        rule: "histories as in C02 plus a large-file profile (streams of 60 KiB - 1.2 MiB, thorough 9 MiB, hundreds of small streams, remove/recreate churn); the independent MS-CFB checker (harness/src/refparse.rs, no cfb code) judges the raw byte image after every op (every 8th in the large profile) and at the end. Non-trivial = the final image has >=2 FAT sectors or a DIFAT sector or >=2 directory sectors or >=2 MiniFAT sectors (measured by the parser), and some chain was freed and another allocated afterwards; distinct = distinct case JSON.",
        assumptions: &["core rules R01-R31 of DESIGN.md 3.3 are the clauses of the property statement; advisory rules never fail", "checker validated by hand-built negative images in the replay tier and by the synthesizer's images"],
        quick_cases: 700,
        thorough_cases: 8000,
        worker,
        solo,
        hang_cpu_s: 60.0,
        extra: None,
        confirm_known: false,
    }
}

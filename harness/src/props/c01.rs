//! C01 - namespace and content operations agree with the abstract tree model.

use crate::engine::Oracles;
use crate::run::run_case as _rc;
use crate::gen::{case_strategy, Profile};
use crate::ops::*;
use crate::run::run_case;
use crate::runner::*;
use proptest::prelude::*;
use serde_json::Value;

pub fn oracles() -> Oracles {
    Oracles { dump_every: 6, final_reopen: true, measure_shapes: true, ..Oracles::default() }
}

pub fn report(case: &Case, o: Oracles) -> CaseReport {
    let out = run_case(case, o, None);
    let s = &out.stats;
    let mut classes: Vec<String> = s.classes.keys().filter(|k| !k.starts_with("refused:")).cloned().collect();
    if s.refusals > 0 {
        classes.push("has_refusal".into());
    }
    // reopen followed by a mutation
    let mut reopen_then_mut = false;
    let mut seen_reopen = false;
    for op in case.ops.iter() {
        if matches!(op, Op::Reopen { .. }) {
            seen_reopen = true;
        } else if seen_reopen && op.is_mutation() {
            reopen_then_mut = true;
        }
    }
    if reopen_then_mut && out.result.is_ok() {
        classes.push("reopen_then_mutation".into());
    }
    if matches!(case.start, Start::Foreign { .. }) {
        classes.push("start_foreign".into());
    }
    classes.push(format!("version_{}", case.version));
    let nontrivial = s.has("removal_two_children") || reopen_then_mut || s.has("cross_cutoff_up") || s.has("cross_cutoff_down");
    CaseReport { fail: out.result.err(), nontrivial, classes, excluded: s.excluded, evaluations: 1, nontrivial_items: vec![], trace: out.trace }
}

pub fn strategy(tier: Tier) -> BoxedStrategy<Case> {
    let mut p = Profile::c01();
    if tier == Tier::Thorough {
        p.max_ops = 160;
        p.max_size = 20000;
    }
    case_strategy(&p, crate::synth::AVAILABLE)
}

fn worker(ctx: &Ctx) -> WorkerResult {
    run_worker(ctx, strategy(ctx.tier), |c: &Case| report(c, oracles()))
}

fn solo(v: &Value) -> Result<CaseReport, String> {
    run_solo(v, |c: &Case| report(c, oracles()))
}

fn permutations(n: usize) -> Vec<Vec<usize>> {
    fn rec(cur: &mut Vec<usize>, used: &mut Vec<bool>, n: usize, out: &mut Vec<Vec<usize>>) {
        if cur.len() == n {
            out.push(cur.clone());
            return;
        }
        for i in 0..n {
            if !used[i] {
                used[i] = true;
                cur.push(i);
                rec(cur, used, n, out);
                cur.pop();
                used[i] = false;
            }
        }
    }
    let mut out = Vec::new();
    rec(&mut Vec::new(), &mut vec![false; n], n, &mut out);
    out
}

/// Exhaustive part: every insertion order x every removal order of n <= 5 sibling names
/// (every binary-search-tree shape on up to 5 keys and every removal case), both versions,
/// streams and storages mixed, listing + lookups after every step.
fn exhaustive_orders(ctx: &Ctx, ev: &mut Value) -> Option<Violation> {
    let names = ["b", "Dd", "a", "ccc", "E"];
    let max_n = 5;
    let halve = ctx.tier != Tier::Thorough;
    let mut count = 0u64;
    for n in 1..=max_n {
        let perms = permutations(n);
        for ins in perms.iter() {
            for rem in perms.iter() {
                for &version in &[3u8, 4u8] {
                    // alternate the versions over the cases to halve the work
                    if halve && n >= 4 && (ins[0] + rem[0] + version as usize) % 2 == 0 {
                        continue;
                    }
                    let mut ops = Vec::new();
                    for &i in ins.iter() {
                        let p = PathSpec::Raw(format!("/{}", names[i]));
                        if i % 2 == 0 {
                            ops.push(Op::CreateStream { p, data: DataSpec { len: 10 + i as u32 * 70, seed: i as u8 } });
                        } else {
                            ops.push(Op::CreateStorage { p });
                        }
                    }
                    ops.push(Op::ListRoot);
                    for &i in rem.iter() {
                        let p = PathSpec::Raw(format!("/{}", names[i]));
                        if i % 2 == 0 {
                            ops.push(Op::RemoveStream { p });
                        } else {
                            ops.push(Op::RemoveStorage { p });
                        }
                        ops.push(Op::ListRoot);
                        for k in 0..n {
                            ops.push(Op::Exists { p: PathSpec::Raw(format!("/{}", names[k].to_uppercase())) });
                        }
                    }
                    let case = Case { version, max_buf: None, start: Start::Fresh, pool: vec![], ops };
                    let o = Oracles { dump_every: 0, final_reopen: true, ..Oracles::default() };
                    let out = run_case(&case, o, None);
                    count += 1;
                    if let Err(f) = out.result {
                        return Some(Violation { key: f.key, detail: format!("[exhaustive orders n={} insert {:?} remove {:?}] {}", n, ins, rem, f.detail), case: serde_json::to_value(&case).unwrap_or(Value::Null), trace: out.trace });
                    }
                }
            }
        }
    }
    match crate::props::scenarios::monotone_siblings() {
        Ok(n) => ev["coverage"]["monotone_sibling_histories"] = serde_json::json!(n),
        Err(v) => return Some(v),
    }
    ev["coverage"]["exhaustive_orders"] = serde_json::json!({"max_siblings": max_n, "histories": count, "exhaustive": true});
    if let Some(e) = ev["coverage"]["evaluations"].as_u64() {
        ev["coverage"]["evaluations"] = serde_json::json!(e + count);
    }
    None
}

pub fn def() -> PropDef {
    PropDef {
        id: "C01",
        level: "exploration",
        rule: "proptest histories of 1-60 ops (thorough: -160) over colliding name pools, both versions, fresh or foreign-layout start; every result compared with the abstract tree model, full dump every 6 ops and at the end, reopen (both modes) at the end. Scenario steps: every insertion x removal order of up to 5 siblings, monotone sibling chains of 70-150 names, a pivot above a long right spine, 300 nested storages made by one create_storage_all. Non-trivial = history with >=1 removal of a node that had two children in the sibling tree (measured on the byte image by the independent parser), or a reopen followed by a mutation, or a stream crossing the 4096 cutoff; distinct = distinct case JSON. Thorough tier: libFuzzer campaign fz_hist over byte-encoded histories (16-byte record per op) with this same runner and oracle.",
        assumptions: &["the abstract model (harness/src/model.rs) transcribes the rustdoc of each method", "upper-casing table from Perl Unicode::UCD restricted to Unicode <= 3.0 mappings"],
        quick_cases: 1500,
        thorough_cases: 25000,
        worker,
        solo,
        hang_cpu_s: 30.0,
        extra: Some(exhaustive_orders),
        confirm_known: false,
    }
}

//! Small shared helpers: panic capture, failures, hashing, time conversion.

use crate::model::{ErrKind, UNIX_EPOCH_FT};
use std::cell::RefCell;
use std::io;
use std::panic::{self, AssertUnwindSafe};
use std::time::{Duration, SystemTime, UNIX_EPOCH};

#[derive(Clone, Debug)]
pub struct Fail {
    /// signature used for known-finding matching (DESIGN 2.6)
    pub key: String,
    pub detail: String,
}

impl Fail {
    pub fn new(key: impl Into<String>, detail: impl Into<String>) -> Fail {
        Fail { key: key.into(), detail: detail.into() }
    }
}

thread_local! {
    static LAST_PANIC: RefCell<Option<(String, String)>> = RefCell::new(None);
}

/// Sentinel payload used by the C14 scheduler to unwind parked threads.
pub struct AbortSentinel;

pub fn install_panic_hook() {
    panic::set_hook(Box::new(|info| {
        let loc = info
            .location()
            .map(|l| {
                let f = l.file();
                // keep the path relative to the crate
                let f = f.rsplit("/repo/").next().unwrap_or(f);
                f.to_string()
            })
            .unwrap_or_else(|| "?".to_string());
        let msg = if let Some(s) = info.payload().downcast_ref::<&str>() {
            s.to_string()
        } else if let Some(s) = info.payload().downcast_ref::<String>() {
            s.clone()
        } else if info.payload().downcast_ref::<AbortSentinel>().is_some() {
            "<abort sentinel>".to_string()
        } else {
            "<non-string panic>".to_string()
        };
        if std::env::var("VERIF_DEBUG").is_ok() {
            eprintln!("panic at {}: {}", loc, msg);
        }
        LAST_PANIC.with(|p| *p.borrow_mut() = Some((loc, msg)));
    }));
}

pub fn take_panic() -> Option<(String, String)> {
    LAST_PANIC.with(|p| p.borrow_mut().take())
}

/// Replaces digit runs by N so that messages with numbers share a key.
pub fn normalise_msg(msg: &str) -> String {
    let mut out = String::new();
    let mut in_num = false;
    for c in msg.chars() {
        if c.is_ascii_digit() {
            if !in_num {
                out.push('N');
                in_num = true;
            }
        } else {
            in_num = false;
            out.push(c);
        }
    }
    let mut s: String = out.chars().take(120).collect();
    s = s.replace('\n', " ");
    s
}

/// Runs `f`, converting a panic into a Fail keyed `panic|file|message|op`.
pub fn guard<T>(op: &str, f: impl FnOnce() -> T) -> Result<T, Fail> {
    match panic::catch_unwind(AssertUnwindSafe(f)) {
        Ok(v) => Ok(v),
        Err(_) => {
            let (loc, msg) = take_panic().unwrap_or(("?".into(), "?".into()));
            if let Some((key, detail)) = crate::lockwatch::classify(&msg) {
                return Err(Fail::new(format!("{}|{}", key, op), format!("in {}: {}", op, detail)));
            }
            Err(Fail::new(
                format!("panic|{}|{}|{}", loc, normalise_msg(&msg), op),
                format!("panic in {} at {}: {}", op, loc, msg),
            ))
        }
    }
}

pub fn errkind(e: &io::Error) -> ErrKind {
    match e.kind() {
        io::ErrorKind::NotFound => ErrKind::NotFound,
        io::ErrorKind::AlreadyExists => ErrKind::AlreadyExists,
        io::ErrorKind::InvalidInput => ErrKind::InvalidInput,
        _ => ErrKind::Other,
    }
}

pub fn fnv64(bytes: &[u8]) -> u64 {
    let mut h: u64 = 0xcbf29ce484222325;
    for &b in bytes {
        h ^= b as u64;
        h = h.wrapping_mul(0x100000001b3);
    }
    h
}

/// SystemTime -> FILETIME ticks, exact; Err if not a multiple of 100 ns or out of u64.
pub fn systime_to_ft(t: SystemTime) -> Result<u64, String> {
    match t.duration_since(UNIX_EPOCH) {
        Ok(d) => {
            if d.subsec_nanos() % 100 != 0 {
                return Err(format!("time {:?} is not a multiple of 100ns", d));
            }
            let ticks = d.as_secs() as u128 * 10_000_000 + (d.subsec_nanos() / 100) as u128;
            let v = UNIX_EPOCH_FT as u128 + ticks;
            if v > u64::MAX as u128 {
                return Err("time beyond FILETIME range".into());
            }
            Ok(v as u64)
        }
        Err(e) => {
            let d = e.duration();
            if d.subsec_nanos() % 100 != 0 {
                return Err(format!("time -{:?} is not a multiple of 100ns", d));
            }
            let ticks = d.as_secs() as u128 * 10_000_000 + (d.subsec_nanos() / 100) as u128;
            if ticks > UNIX_EPOCH_FT as u128 {
                return Err("time before 1601".into());
            }
            Ok(UNIX_EPOCH_FT - ticks as u64)
        }
    }
}

/// Floor/ceil FILETIME of "now" for clock intervals.
pub fn now_ft_floor() -> u64 {
    let d = SystemTime::now().duration_since(UNIX_EPOCH).unwrap_or(Duration::ZERO);
    UNIX_EPOCH_FT + d.as_secs() * 10_000_000 + (d.subsec_nanos() / 100) as u64
}

pub fn systime_from_spec(neg: bool, secs: u64, nanos: u32) -> Option<SystemTime> {
    let d = Duration::new(secs, nanos);
    if neg {
        UNIX_EPOCH.checked_sub(d)
    } else {
        UNIX_EPOCH.checked_add(d)
    }
}

pub fn hex(bytes: &[u8]) -> String {
    bytes.iter().map(|b| format!("{:02x}", b)).collect()
}

pub fn env_u64(name: &str, default: u64) -> u64 {
    std::env::var(name).ok().and_then(|s| s.trim().parse().ok()).unwrap_or(default)
}

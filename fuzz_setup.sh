#!/bin/bash
# Builds the two libFuzzer targets (thorough tier of C05/C11). Offline; needs cargo +nightly fuzz.
set -e
cd /verif/harness
[ -f fuzz/Cargo.lock ] || cp Cargo.lock fuzz/Cargo.lock
CARGO_NET_OFFLINE=true cargo +nightly fuzz build --sanitizer none >fuzz-build.log 2>&1 || { tail -20 fuzz-build.log; exit 1; }
echo "fuzz targets built"

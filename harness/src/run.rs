//! Runs a whole case through the engine with the per-boundary oracles.

use crate::engine::*;
use crate::ops::*;
use crate::util::*;

pub struct Outcome {
    pub result: Result<(), Fail>,
    pub stats: Stats,
    pub trace: Vec<String>,
    pub failed_at: Option<usize>,
    pub final_len: usize,
}

pub type Hook<'a> = &'a mut dyn FnMut(&mut Engine, usize, &Op) -> Result<(), Fail>;

pub fn make_engine(case: &Case, oracles: Oracles) -> Result<Engine, Fail> {
    match &case.start {
        Start::Fresh => Engine::new(case.version, case.max_buf, case.pool.clone(), oracles),
        Start::Foreign { seed } => {
            let (bytes, model) = crate::synth::foreign_start(*seed, case.version, &case.pool)?;
            Engine::from_image(bytes, model, case.version, case.max_buf, case.pool.clone(), oracles, false)
        }
    }
}

pub fn run_case(case: &Case, oracles: Oracles, hook: Option<Hook>) -> Outcome {
    let mut eng = match make_engine(case, oracles) {
        Ok(e) => e,
        Err(f) => return Outcome { result: Err(f), stats: Stats::default(), trace: vec![], failed_at: Some(0), final_len: 0 },
    };
    let (result, failed_at) = run_ops(&mut eng, &case.ops, hook);
    let final_len = eng.io.len();
    Outcome { result, stats: eng.stats.clone(), trace: std::mem::take(&mut eng.trace), failed_at, final_len }
}

pub fn run_ops(eng: &mut Engine, ops: &[Op], mut hook: Option<Hook>) -> (Result<(), Fail>, Option<usize>) {
    let mut boundaries = 0usize;
    for (i, op) in ops.iter().enumerate() {
        eng.op_index = i;
        if let Err(f) = eng.step(op) {
            return (Err(f), Some(i));
        }
        if let Err(f) = after_step(eng, i, op, &mut boundaries) {
            return (Err(f), Some(i));
        }
        if let Some(h) = hook.as_mut() {
            if let Err(f) = h(eng, i, op) {
                return (Err(f), Some(i));
            }
        }
    }
    // end of history: close handles, final dump, final reopen
    let r = (|| -> Result<(), Fail> {
        eng.close_all_handles()?;
        eng.check_live_dump()?;
        if eng.oracles.final_reopen || eng.oracles.reopen_check {
            eng.check_reopen(false, "final")?;
            eng.check_reopen(true, "final")?;
        }
        Ok(())
    })();
    match r {
        Ok(()) => (Ok(()), None),
        Err(f) => (Err(f), Some(ops.len())),
    }
}

fn after_step(eng: &mut Engine, i: usize, op: &Op, boundaries: &mut usize) -> Result<(), Fail> {
    let o = eng.oracles.clone();
    if o.dump_every > 0 && (i + 1) % o.dump_every == 0 {
        eng.check_live_dump()?;
    }
    if o.reopen_check {
        if eng.any_dirty() {
            eng.stats.boundaries_skipped_dirty += 1;
        } else if !matches!(op, Op::Reopen { .. }) {
            *boundaries += 1;
            eng.stats.boundaries_checked += 1;
            let c1 = eng.check_reopen(false, "boundary")?;
            drop(c1);
            let c2 = eng.check_reopen(true, "boundary")?;
            drop(c2);
            if o.reopen_replace_every > 0 && *boundaries % o.reopen_replace_every == 0 && op.is_mutation() {
                let strict = (*boundaries / o.reopen_replace_every) % 2 == 0;
                eng.reopen(strict, "replace")?;
                eng.stats.bump("reopen_replace");
            }
        }
    }
    Ok(())
}

//! Thorough-tier extra for C05/C11: a libFuzzer campaign on the same oracle, seeded with a
//! generated corpus; artifacts are turned into replayable cases.

use crate::fuzzsup;
use crate::props::c05::CorruptCase;
use crate::runner::*;
use crate::util::*;
use serde_json::{json, Value};
use std::path::{Path, PathBuf};
use std::process::Command;

pub fn fuzz_dir() -> PathBuf {
    PathBuf::from(format!("{}/harness/fuzz", VERIF_DIR))
}

fn target_bin(target: &str) -> PathBuf {
    fuzz_dir().join("target/x86_64-unknown-linux-gnu/release").join(target)
}

/// Writes the seed corpus for a target: generated images (synthesized and library-written)
/// with script tails, plus the repository's pinned crash inputs.
pub fn gen_corpus(target: &str, dir: &Path, n: usize) -> usize {
    use crate::props::c05::{base_strategy, build_base};
    use proptest::strategy::{Strategy, ValueTree};
    use proptest::test_runner::{Config, RngSeed, TestRunner};
    let _ = std::fs::create_dir_all(dir);
    let mut cfg = Config::default();
    cfg.rng_seed = RngSeed::Fixed(4242);
    cfg.failure_persistence = None;
    let mut runner = TestRunner::new(cfg);
    let strat = base_strategy();
    let mut written = 0;
    for i in 0..n {
        let b = match strat.new_tree(&mut runner) {
            Ok(t) => t.current(),
            Err(_) => continue,
        };
        if let Ok(mut img) = build_base(&b) {
            if img.len() > 40_000 {
                continue;
            }
            let tail: Vec<u8> = (0..fuzzsup::TAIL).map(|k| ((i * 31 + k * 7) % 251) as u8).collect();
            img.extend_from_slice(&tail);
            if std::fs::write(dir.join(format!("gen-{:03}", i)), &img).is_ok() {
                written += 1;
            }
        }
    }
    for sub in ["infinite_loops_fuzzed", "panics_fuzzed"] {
        if let Ok(rd) = std::fs::read_dir(format!("/repo/tests/{}", sub)) {
            for e in rd.flatten() {
                if let Ok(mut b) = std::fs::read(e.path()) {
                    b.extend_from_slice(&[0u8; fuzzsup::TAIL]);
                    if std::fs::write(dir.join(format!("repo-{}", e.file_name().to_string_lossy())), &b).is_ok() {
                        written += 1;
                    }
                }
            }
        }
    }
    let _ = target;
    written
}

/// Runs the campaign; returns a violation for the first artifact that reproduces.
pub fn campaign(ctx: &Ctx, ev: &mut Value, prop: &str, target: &str, mutating: bool, solo: fn(&Value) -> Result<CaseReport, String>) -> Option<Violation> {
    let want = ctx.tier == Tier::Thorough || std::env::var("VERIF_FUZZ").is_ok();
    if !want {
        return None;
    }
    let bin = target_bin(target);
    if !bin.exists() {
        ev["coverage"]["libfuzzer"] = json!({"ran": false, "reason": format!("{} not built (./check setup builds it; needs cargo +nightly fuzz)", bin.display())});
        return None;
    }
    let work = scratch_dir().join(format!("fuzz-{}", target));
    let corpus = work.join("corpus");
    let arts = work.join("artifacts");
    let _ = std::fs::create_dir_all(&arts);
    let seeded = gen_corpus(target, &corpus, 80);
    let runs = env_u64("VERIF_FUZZ_RUNS", 400_000);
    let jobs = env_u64("VERIF_WORKERS", 16);
    let t0 = std::time::Instant::now();
    let out = Command::new(&bin)
        .arg(&corpus)
        .arg(format!("-runs={}", runs))
        .arg(format!("-seed={}", ctx.seed))
        .arg("-max_len=65536")
        .arg("-len_control=0")
        .arg("-timeout=25")
        .arg("-rss_limit_mb=6000")
        .arg(format!("-jobs={}", jobs))
        .arg(format!("-workers={}", jobs))
        .arg(format!("-artifact_prefix={}/", arts.display()))
        .current_dir(&work)
        .output();
    let mut execs = 0u64;
    // each job writes fuzz-<n>.log into the working directory
    if let Ok(rd) = std::fs::read_dir(&work) {
        for e in rd.flatten() {
            let name = e.file_name().to_string_lossy().to_string();
            if name.starts_with("fuzz-") && name.ends_with(".log") {
                if let Ok(t) = std::fs::read_to_string(e.path()) {
                    for line in t.lines().rev() {
                        if let Some(rest) = line.strip_prefix("Done ") {
                            execs += rest.split_whitespace().next().and_then(|x| x.parse::<u64>().ok()).unwrap_or(0);
                            break;
                        }
                        if let Some(idx) = line.find("stat::number_of_executed_units:") {
                            execs += line[idx..].split(':').last().and_then(|x| x.trim().parse::<u64>().ok()).unwrap_or(0);
                            break;
                        }
                    }
                }
            }
        }
    }
    let corpus_after = std::fs::read_dir(&corpus).map(|r| r.count()).unwrap_or(0);
    let mut artifacts: Vec<PathBuf> = std::fs::read_dir(&arts).map(|r| r.flatten().map(|e| e.path()).collect()).unwrap_or_default();
    artifacts.sort();
    ev["coverage"]["libfuzzer"] = json!({
        "ran": out.is_ok(),
        "target": target,
        "runs_per_job": runs,
        "jobs": jobs,
        "executions_reported": execs,
        "seed_corpus_files": seeded,
        "corpus_files_after": corpus_after,
        "artifacts": artifacts.len(),
        "wall_s": t0.elapsed().as_secs_f64(),
    });
    if let Some(e) = ev["coverage"]["evaluations"].as_u64() {
        ev["coverage"]["evaluations"] = json!(e + execs);
    }
    let mut found = None;
    for a in artifacts.iter() {
        let data = match std::fs::read(a) {
            Ok(d) => d,
            Err(_) => continue,
        };
        let (img, tail) = fuzzsup::split(&data);
        let script = fuzzsup::script(tail, mutating);
        let case = CorruptCase {
            base: crate::props::c05::BaseSpec { version: 3, pool: vec![], tree: crate::synth::TreeSpec { root_clsid: [0; 16], root_state: 0, root_created: 0, root_modified: 0, items: vec![] }, choices: vec![], surplus_fat: 0, lib_ops: None },
            corrs: vec![],
            script,
            raw_hex: Some(hex(img)),
        };
        let v = serde_json::to_value(&case).unwrap_or(Value::Null);
        let name = a.file_name().map(|n| n.to_string_lossy().to_string()).unwrap_or_default();
        if name.starts_with("timeout-") {
            found = Some(Violation { key: "hang|libfuzzer_timeout".into(), detail: format!("libFuzzer reported a timeout (>25 s) on artifact {}", name), case: v, trace: vec![] });
            break;
        }
        // reproduce through the ordinary oracle, in a child process (it may abort)
        let tmp = work.join("artifact-case.json");
        let _ = std::fs::write(&tmp, serde_json::to_string(&v).unwrap_or_default());
        let st = Command::new(std::env::current_exe().unwrap()).arg("solo").arg(prop).arg(&tmp).output();
        let text = st.as_ref().map(|o| String::from_utf8_lossy(&o.stdout).to_string()).unwrap_or_default();
        let mut key = None;
        for line in text.lines() {
            if let Some(rest) = line.strip_prefix("SOLO-FAIL ") {
                if let Ok(j) = serde_json::from_str::<Value>(rest) {
                    key = Some((j["key"].as_str().unwrap_or("").to_string(), j["detail"].as_str().unwrap_or("").to_string()));
                }
            }
        }
        let _ = solo;
        match key {
            Some((k, d)) => {
                found = Some(Violation { key: k, detail: format!("{} [libFuzzer artifact {}]", d, name), case: v, trace: vec![] });
                break;
            }
            None => {
                let code = st.as_ref().ok().and_then(|o| o.status.code());
                if code != Some(0) {
                    found = Some(Violation { key: format!("abort|libfuzzer_artifact|{:?}", code), detail: format!("artifact {} kills the process (exit {:?})", name, code), case: v, trace: vec![] });
                    break;
                }
                // artifact does not reproduce through the oracle (e.g. rss limit of the fuzzer): noted only
                ev["coverage"]["libfuzzer"]["unreproduced_artifacts"] = json!(ev["coverage"]["libfuzzer"]["unreproduced_artifacts"].as_u64().unwrap_or(0) + 1);
            }
        }
    }
    let _ = std::fs::remove_dir_all(&work);
    found
}

fn executions_in_logs(work: &Path) -> u64 {
    let mut execs = 0u64;
    if let Ok(rd) = std::fs::read_dir(work) {
        for e in rd.flatten() {
            let name = e.file_name().to_string_lossy().to_string();
            if name.starts_with("fuzz-") && name.ends_with(".log") {
                if let Ok(t) = std::fs::read_to_string(e.path()) {
                    for line in t.lines().rev() {
                        if let Some(rest) = line.strip_prefix("Done ") {
                            execs += rest.split_whitespace().next().and_then(|x| x.parse::<u64>().ok()).unwrap_or(0);
                            break;
                        }
                        if let Some(idx) = line.find("stat::number_of_executed_units:") {
                            execs += line[idx..].split(':').last().and_then(|x| x.trim().parse::<u64>().ok()).unwrap_or(0);
                            break;
                        }
                    }
                }
            }
        }
    }
    execs
}

/// Coverage-guided campaign over operation histories (`fz_hist`): the fuzz bytes are decoded
/// by fuzzdec.rs (one 16-byte record per operation) under the op weights of the property's
/// own workers; oracle = the property's own case runner. Thorough tier (or VERIF_FUZZ set).
/// An artifact is decoded into its `Case` and confirmed alone through `cfbverif solo`.
pub fn hist_campaign(ctx: &Ctx, ev: &mut Value, prop: &str) -> Option<Violation> {
    let want = ctx.tier == Tier::Thorough || std::env::var("VERIF_FUZZ").is_ok();
    if !want {
        return None;
    }
    let target = "fz_hist";
    let bin = target_bin(target);
    if !bin.exists() {
        ev["coverage"]["libfuzzer_histories"] = json!({"ran": false, "reason": format!("{} not built (./check setup builds it; needs cargo +nightly fuzz)", bin.display())});
        return None;
    }
    let work = scratch_dir().join(format!("fuzz-{}-{}", target, prop));
    let _ = std::fs::remove_dir_all(&work);
    let corpus = work.join("corpus");
    let arts = work.join("artifacts");
    let _ = std::fs::create_dir_all(&arts);
    let _ = std::fs::create_dir_all(&corpus);
    // seed corpus: pseudo-random byte strings (every byte string decodes to a history)
    let mut x = ctx.seed.wrapping_mul(0x9E37_79B9_7F4A_7C15) | 1;
    let mut next = move || {
        x ^= x << 13;
        x ^= x >> 7;
        x ^= x << 17;
        x
    };
    let mut seeded = 0;
    for i in 0..96 {
        let len = 40 + (next() % 1_300) as usize;
        let bytes: Vec<u8> = (0..len).map(|_| (next() >> 24) as u8).collect();
        if std::fs::write(corpus.join(format!("rnd-{:03}", i)), &bytes).is_ok() {
            seeded += 1;
        }
    }
    let runs = env_u64("VERIF_FUZZ_HIST_RUNS", 60_000);
    let jobs = env_u64("VERIF_WORKERS", 16);
    let t0 = std::time::Instant::now();
    let out = Command::new(&bin)
        .env("VERIF_FZ_PROP", prop)
        .arg(&corpus)
        .arg(format!("-runs={}", runs))
        .arg(format!("-seed={}", ctx.seed))
        .arg("-max_len=1400")
        .arg("-len_control=0")
        .arg("-timeout=60")
        .arg("-rss_limit_mb=6000")
        .arg(format!("-jobs={}", jobs))
        .arg(format!("-workers={}", jobs))
        .arg(format!("-artifact_prefix={}/", arts.display()))
        .current_dir(&work)
        .output();
    let execs = executions_in_logs(&work);
    let corpus_after = std::fs::read_dir(&corpus).map(|r| r.count()).unwrap_or(0);
    // what the corpus the fuzzer kept looks like: histories by length and start kind
    let mut ops_hist: std::collections::BTreeMap<String, u64> = Default::default();
    if let Ok(rd) = std::fs::read_dir(&corpus) {
        for e in rd.flatten() {
            if let Ok(d) = std::fs::read(e.path()) {
                if let Some(c) = fuzzsup::hist_case(prop, &d) {
                    let b = match c.ops.len() {
                        0..=5 => "ops_0_5",
                        6..=20 => "ops_6_20",
                        21..=40 => "ops_21_40",
                        _ => "ops_41_plus",
                    };
                    *ops_hist.entry(b.to_string()).or_insert(0) += 1;
                    let st = match c.start {
                        crate::ops::Start::Fresh => "start_fresh",
                        crate::ops::Start::Foreign { .. } => "start_foreign",
                        _ => "start_other",
                    };
                    *ops_hist.entry(st.to_string()).or_insert(0) += 1;
                }
            }
        }
    }
    let mut artifacts: Vec<PathBuf> = std::fs::read_dir(&arts).map(|r| r.flatten().map(|e| e.path()).collect()).unwrap_or_default();
    artifacts.sort();
    ev["coverage"]["libfuzzer_histories"] = json!({
        "ran": out.is_ok(),
        "target": target,
        "oracle_set": prop,
        "runs_per_job": runs,
        "jobs": jobs,
        "executions_reported": execs,
        "seed_corpus_files": seeded,
        "corpus_files_after": corpus_after,
        "corpus_histories": ops_hist,
        "artifacts": artifacts.len(),
        "wall_s": t0.elapsed().as_secs_f64(),
    });
    if let Some(e) = ev["coverage"]["evaluations"].as_u64() {
        ev["coverage"]["evaluations"] = json!(e + execs);
    }
    let mut found = None;
    for a in artifacts.iter() {
        let name = a.file_name().map(|n| n.to_string_lossy().to_string()).unwrap_or_default();
        let data = match std::fs::read(a) {
            Ok(d) => d,
            Err(_) => continue,
        };
        let case = match fuzzsup::hist_case(prop, &data) {
            Some(c) => c,
            None => continue,
        };
        let v = serde_json::to_value(&case).unwrap_or(Value::Null);
        let tmp = work.join("artifact-case.json");
        let _ = std::fs::write(&tmp, serde_json::to_string(&v).unwrap_or_default());
        match solo_process(prop, &tmp, 120) {
            SoloOutcome::Fail(k, d) => {
                found = Some(Violation { key: k, detail: format!("{} [libFuzzer history artifact {}]", d, name), case: v, trace: vec![] });
                break;
            }
            SoloOutcome::Hang => {
                found = Some(Violation { key: "hang|libfuzzer_history".into(), detail: format!("history decoded from artifact {} does not finish within 120 s of CPU time alone", name), case: v, trace: vec![] });
                break;
            }
            SoloOutcome::Abort(w) => {
                found = Some(Violation { key: format!("abort|libfuzzer_history|{}", w), detail: format!("history decoded from artifact {} kills the process ({})", name, w), case: v, trace: vec![] });
                break;
            }
            SoloOutcome::Pass | SoloOutcome::Known(_) | SoloOutcome::Harness(_) => {
                // does not reproduce through the oracle alone (fuzzer's own rss/time limit, or a
                // harness problem): counted, never a violation
                ev["coverage"]["libfuzzer_histories"]["unreproduced_artifacts"] = json!(ev["coverage"]["libfuzzer_histories"]["unreproduced_artifacts"].as_u64().unwrap_or(0) + 1);
            }
        }
    }
    let _ = std::fs::remove_dir_all(&work);
    found
}

//! Runs a whole case through the engine with the per-boundary oracles.

use crate::engine::*;
use crate::ops::*;
use crate::util::*;

pub struct Outcome {
    pub result: Result<(), Fail>,
    pub stats: Stats,
    pub trace: Vec<String>,
    pub failed_at: Option<usize>,
    pub final_len: usize,
}

pub fn debug_on() -> bool {
    std::env::var("VERIF_DEBUG").is_ok()
}

pub type Hook<'a> = &'a mut dyn FnMut(&mut Engine, usize, &Op) -> Result<(), Fail>;

pub fn make_engine(case: &Case, oracles: Oracles) -> Result<Engine, Fail> {
    match &case.start {
        Start::Fresh => Engine::new(case.version, case.max_buf, case.pool.clone(), oracles),
        Start::Foreign { seed } => {
            let (bytes, model) = crate::synth::foreign_start(*seed, case.version, &case.pool)?;
            Engine::from_image(bytes, model, case.version, case.max_buf, case.pool.clone(), oracles, false)
        }
        Start::Deviant { seed, devs } => {
            let (mut bytes, model) = crate::synth::foreign_start(*seed, case.version, &case.pool)?;
            let parsed = crate::refparse::parse(&bytes).map_err(|e| Fail::new("harness|parse", e))?;
            for (d, sel) in devs.iter() {
                let nd = crate::props::c16::ALL_DEVS.len() + 2;
                if *d as usize % nd == nd - 1 {
                    // stale bytes in unallocated directory entries (CLSID, state bits, times,
                    // start sector, size of an object that once lived there): accepted by both
                    // open modes; whatever is created in such a slot must start out fresh
                    for (i, e) in parsed.entries.iter().enumerate() {
                        if e.typ == 0 {
                            let off = parsed.entry_offsets[i];
                            for (k, b) in bytes[off + 80..off + 96].iter_mut().enumerate() {
                                *b = 0x71 + k as u8;
                            }
                            bytes[off + 96..off + 100].copy_from_slice(&(0xDEAD_0000u32 | *sel as u32).to_le_bytes());
                            bytes[off + 100..off + 108].copy_from_slice(&0x01D0_1234_5678_9ABCu64.to_le_bytes());
                            bytes[off + 108..off + 116].copy_from_slice(&0x01D1_1111_2222_3333u64.to_le_bytes());
                            bytes[off + 116..off + 120].copy_from_slice(&5u32.to_le_bytes());
                            bytes[off + 120..off + 124].copy_from_slice(&1234u32.to_le_bytes());
                        }
                    }
                    continue;
                }
                if *d as usize % nd == nd - 2 {
                    // legacy writers: uninitialised upper 32 bits of a version-3 stream size
                    // (MS-CFB 2.6.3 recommends that readers ignore them; Version::stream_len_mask does)
                    if case.version == 3 {
                        let streams: Vec<usize> = parsed.entries.iter().enumerate().filter(|(_, e)| e.typ == 2).map(|(i, _)| i).collect();
                        if !streams.is_empty() {
                            let i = streams[pick(*sel, streams.len())];
                            let off = parsed.entry_offsets[i] + 124;
                            bytes[off..off + 4].copy_from_slice(&[0xEF, 0xBE, 0xAD, (*sel as u8) | 1]);
                        }
                    }
                    continue;
                }
                let dev = crate::props::c16::ALL_DEVS[*d as usize % nd];
                // deviations that a known finding says are not tolerated in combination
                if matches!(dev, crate::props::c16::Dev::NumFatPlus | crate::props::c16::Dev::NumFatMany) {
                    continue;
                }
                crate::props::c16::apply_dev(&mut bytes, &parsed, dev, *sel);
            }
            let mut o = oracles;
            o.no_strict = true;
            Engine::from_image(bytes, model, case.version, case.max_buf, case.pool.clone(), o, false)
        }
    }
}

pub fn run_case(case: &Case, oracles: Oracles, hook: Option<Hook>) -> Outcome {
    let mut eng = match make_engine(case, oracles) {
        Ok(e) => e,
        Err(f) => return Outcome { result: Err(f), stats: Stats::default(), trace: vec![], failed_at: Some(0), final_len: 0 },
    };
    let (result, failed_at) = run_ops(&mut eng, &case.ops, hook);
    let final_len = eng.io.len();
    Outcome { result, stats: eng.stats.clone(), trace: std::mem::take(&mut eng.trace), failed_at, final_len }
}

pub fn run_ops(eng: &mut Engine, ops: &[Op], mut hook: Option<Hook>) -> (Result<(), Fail>, Option<usize>) {
    let mut boundaries = 0usize;
    for (i, op) in ops.iter().enumerate() {
        eng.op_index = i;
        if let Err(f) = eng.step(op) {
            return (Err(f), Some(i));
        }
        if debug_on() {
            let snap = eng.snapshot();
            let extra = match crate::refparse::parse(&snap) {
                Ok(p) => format!("len={} fat_free={:?} root(start={:#x},size={}) minifat_chain={:?} ministream_chain={:?} minifat={:?}", snap.len(), p.fat.iter().enumerate().filter(|(i, c)| **c == 0xFFFF_FFFF && *i < p.nsectors).map(|(i, _)| i).collect::<Vec<_>>(), p.entries.get(0).map(|e| e.start).unwrap_or(0), p.entries.get(0).map(|e| e.size).unwrap_or(0), p.minifat_chain, p.ministream_chain, p.minifat.iter().take(24).collect::<Vec<_>>()),
                Err(e) => e,
            };
            eng.trace.push(format!("      [{}]", extra));
        }
        if let Err(f) = after_step(eng, i, op, &mut boundaries) {
            return (Err(f), Some(i));
        }
        if let Some(h) = hook.as_mut() {
            if let Err(f) = h(eng, i, op) {
                return (Err(f), Some(i));
            }
        }
    }
    // end of history: close handles, final dump, final reopen
    let r = (|| -> Result<(), Fail> {
        eng.close_all_handles()?;
        eng.check_live_dump()?;
        if eng.oracles.checker_every > 0 && !eng.oracles.no_strict {
            run_checker(eng, "end of history")?;
        }
        if eng.oracles.final_reopen || eng.oracles.reopen_check {
            eng.check_reopen(false, "final")?;
            if !eng.oracles.no_strict {
                eng.check_reopen(true, "final")?;
            }
        }
        Ok(())
    })();
    match r {
        Ok(()) => (Ok(()), None),
        Err(f) => (Err(f), Some(ops.len())),
    }
}

/// Runs the independent checker on the current byte image.
pub fn run_checker(eng: &mut Engine, when: &str) -> Result<(), Fail> {
    let snap = eng.snapshot();
    let rules = match crate::refparse::parse(&snap) {
        Ok(p) => {
            if p.difat.len() >= 2 {
                eng.stats.bump("image_multi_fat_sectors");
            }
            if !p.difat_sectors.is_empty() {
                eng.stats.bump("image_difat_sector");
            }
            if p.dir_chain.len() >= 2 {
                eng.stats.bump("image_multi_dir_sectors");
            }
            if p.minifat_chain.len() >= 2 {
                eng.stats.bump("image_multi_minifat_sectors");
            }
            if p.difat.len() >= 2 || !p.difat_sectors.is_empty() || p.dir_chain.len() >= 2 || p.minifat_chain.len() >= 2 {
                eng.stats.bump("multi_table_image");
            }
            if !p.advisory.is_empty() {
                eng.stats.bump("advisory_findings");
            }
            p.rules
        }
        Err(e) => vec![("R00-no-header".to_string(), e)],
    };
    eng.stats.bump("checker_runs");
    if let Some((id, detail)) = rules.first() {
        return Err(Fail::new(format!("rule|{}", id), format!("independent checker ({}): {} - {} [{} rule violations in total: {:?}]", when, id, detail, rules.len(), rules.iter().map(|r| r.0.clone()).collect::<std::collections::BTreeSet<_>>())));
    }
    Ok(())
}

fn after_step(eng: &mut Engine, i: usize, op: &Op, boundaries: &mut usize) -> Result<(), Fail> {
    let o = eng.oracles.clone();
    if o.track_tables {
        let snap_hdr: Vec<u8> = {
            let d = eng.io.data.lock().unwrap();
            let mut v = d.get(40..76).map(|s| s.to_vec()).unwrap_or_default();
            v.extend_from_slice(&(d.len() as u64).to_le_bytes());
            v
        };
        if eng.last_header != snap_hdr {
            if !eng.last_header.is_empty() {
                if eng.last_header[..36.min(eng.last_header.len())] != snap_hdr[..36.min(snap_hdr.len())] {
                    eng.stats.bump("header_counters_changed");
                    eng.tables_changed = true;
                } else {
                    eng.stats.bump("file_grew");
                    eng.tables_changed = true;
                }
            }
            eng.last_header = snap_hdr;
        }
        if eng.replaced_after_change && op.is_mutation() {
            eng.stats.bump("mutation_after_replace_after_table_change");
        }
    }
    if o.checker_every > 0 && !o.no_strict && (i + 1) % o.checker_every == 0 {
        run_checker(eng, "after op")?;
    }
    if o.dump_every > 0 && (i + 1) % o.dump_every == 0 {
        eng.check_live_dump()?;
    }
    if o.reopen_check {
        if eng.any_dirty() {
            eng.stats.boundaries_skipped_dirty += 1;
        } else if !matches!(op, Op::Reopen { .. }) {
            *boundaries += 1;
            eng.stats.boundaries_checked += 1;
            let c1 = eng.check_reopen(false, "boundary")?;
            drop(c1);
            if !eng.oracles.no_strict {
                let c2 = eng.check_reopen(true, "boundary")?;
                drop(c2);
            }
            if o.reopen_replace_every > 0 && *boundaries % o.reopen_replace_every == 0 && op.is_mutation() {
                let strict = (*boundaries / o.reopen_replace_every) % 2 == 0;
                eng.reopen(strict, "replace")?;
                eng.stats.bump("reopen_replace");
                if eng.tables_changed {
                    eng.replaced_after_change = true;
                }
            }
        }
    }
    Ok(())
}

#!/bin/bash
# Reverts each fix: commit of /repo in a scratch copy and runs the checks that should notice.
cd /verif
out=/verif/mutants/REVERTS.txt; : > "$out.tmp"
while read -r commit ids; do
  [ -z "$commit" ] && continue
  msg=$(git -C /repo log --format=%s -1 "$commit")
  echo "== revert $commit ($msg) -> $ids" | tee -a "$out.tmp"
  tools/run_mutant.sh "revert:$commit" $ids 2>&1 | sed 's/^/   /' | cut -c1-240 | tee -a "$out.tmp"
done <<'LIST'
f369816 C01 C09 C10
38ab851 C01 C10
d43a617 C08 C01
4b9b2f3 C06 C05
5fd455a C09 C04 C01
50d3f24 C03
d2f0a45 C07 C03
58971a2 C04 C02
f39388d C15
2196b2a C12
7e77dbb C13
7084d36 C11 C13
a98d3ae C11
c6d1bc4 C03 C04
1245af6 C13
51bc258 C14
da07164 C11
1131c87 C11
LIST
mv "$out.tmp" "$out"

#!/bin/bash
# Usage: tools/eval_seeded.sh <out-dir> <k> <name> <primary ID> [other IDs...]
# Confirms a seeded defect written by a sub-agent (existing tests pass with the patch, the
# demonstration fails with it and passes without it) in a scratch copy, runs the given
# checks against it, and stores it under /verif/seeded/<name>/ with meta.json.
set -u
out="$1"; k="$2"; name="$3"; shift 3; ids="$*"
patch="$out/patch$k.diff"; demo="$out/demo$k.rs"; notes="$out/notes$k.md"
[ -f "$patch" ] && [ -f "$demo" ] || { echo "missing patch/demo"; exit 3; }
W=/tmp/seedeval/$$; rm -rf "$W"; mkdir -p "$W"
rsync -a --exclude target --exclude .git /repo/ "$W/clean/"
rsync -a --exclude target --exclude .git /repo/ "$W/patched/"
( cd "$W/patched" && patch -p1 --no-backup-if-mismatch < "$patch" >/dev/null ) || { echo "PATCH FAILED"; rm -rf "$W"; exit 3; }
export CARGO_TARGET_DIR=/tmp/seedeval-target CARGO_NET_OFFLINE=true
# cargo hashes path packages relative to the workspace root, so copies at different paths share
# artifacts in a common target directory and freshness is decided by mtime alone: make every
# source newer than any artifact, and keep separate target directories for the two copies
find "$W/clean/src" "$W/clean/tests" "$W/patched/src" "$W/patched/tests" -type f -exec touch {} +
suite=$(cd "$W/patched" && cargo test --workspace --no-fail-fast --offline 2>&1 | grep -E "^test result" | awk '{p+=$4; f+=$6} END {print p" passed "f" failed"}')
cp "$demo" "$W/patched/tests/seeded_demo.rs"; cp "$demo" "$W/clean/tests/seeded_demo.rs"
demo_patched=$(cd "$W/patched" && timeout 600 cargo test --offline --test seeded_demo 2>&1 | grep -E "^test result|timed out" | tail -1); [ -z "$demo_patched" ] && demo_patched="no result (build error, timeout or abort)"
demo_clean=$(cd "$W/clean" && CARGO_TARGET_DIR=/tmp/seedeval-target-clean timeout 600 cargo test --offline --test seeded_demo 2>&1 | grep -E "^test result" | tail -1)
echo "suite with patch: $suite"
echo "demo with patch : $demo_patched"
echo "demo without    : $demo_clean"
rm -rf "$W"
res=$(/verif/tools/run_mutant.sh "$patch" $ids 2>&1)
echo "$res"
d=/verif/seeded/$name; mkdir -p "$d"; cp "$patch" "$d/patch.diff"; cp "$demo" "$d/demo.rs"; [ -f "$notes" ] && cp "$notes" "$d/notes.md"
python3 - "$d" "$name" "$suite" "$demo_patched" "$demo_clean" "$ids" "$res" <<'PY'
import json,sys,re
d,name,suite,dp,dc,ids,res=sys.argv[1:8]
checks={}
for line in res.splitlines():
    m=re.match(r'(C\d+) exit=(\d+)\s*(.*)',line)
    if m: checks[m.group(1)]={"exit":int(m.group(2)),"first_report":m.group(3)[:300]}
notes=''
try: notes=open(d+'/notes.md').read()
except: pass
meta={"name":name,"property":ids.split()[0],"source":"independent sub-agent given only the property text and a scratch worktree",
 "needs_to_manifest":"see notes.md",
 "confirmed":{"existing_suite_with_patch":suite,"demo_with_patch":dp,"demo_without_patch":dc},
 "checks_run":checks,
 "caught_by":[c for c,v in checks.items() if v["exit"]==1],
 "commands":["tools/eval_seeded.sh (scratch copy of /repo + patch; cargo test --workspace --offline; demo as tests/seeded_demo.rs)","tools/run_mutant.sh patch.diff "+ids]}
json.dump(meta,open(d+'/meta.json','w'),indent=1)
print("caught by:",meta["caught_by"])
PY

//! C07 - open handles stay bound to their stream and never touch other objects.

use crate::engine::{Oracles, Stats};
use crate::gen::{case_strategy, NameProfile, Profile};
use crate::ops::*;
use crate::props::hist::history_report;
use crate::runner::*;
use serde_json::Value;

fn oracles() -> Oracles {
    Oracles { dump_every: 3, final_reopen: true, measure_shapes: true, checker_every: 4, ..Oracles::default() }
}

fn profile(tier: Tier) -> Profile {
    let mut p = Profile::c01();
    p.create = 28;
    p.remove = 26;
    p.query = 4;
    p.content = 8;
    p.meta = 3;
    p.reopen = 0;
    p.handles = 45;
    p.bad = 1;
    p.fancy = 1;
    p.max_size = 6000;
    p.names = NameProfile::Ascii;
    p.pool_min = 5;
    p.pool_max = 10;
    p.min_ops = 8;
    p.max_ops = if tier == Tier::Thorough { 150 } else { 70 };
    p.max_bufs = vec![None, Some(1024)];
    p
}

fn nontrivial(s: &Stats, _c: &Case) -> bool {
    s.has("handle_used_after_pred_removal") || s.has("handle_used_after_slot_reuse")
}

fn report(c: &Case) -> CaseReport {
    history_report(c, oracles(), nontrivial)
}

fn worker(ctx: &Ctx) -> WorkerResult {
    run_worker(ctx, case_strategy(&profile(ctx.tier), false), report)
}

fn solo(v: &Value) -> Result<CaseReport, String> {
    run_solo(v, report)
}

pub fn def() -> PropDef {
    PropDef {
        id: "C07",
        level: "exploration",
        rule: "histories with up to 3 handles open on different streams interleaved with creations, removals (stream, storage, recursive), resizes and overwrites of other entries; the generator never removes/overwrites a stream that has an open handle and never opens two handles on one stream (such draws are skipped and counted in 'excluded'); after every step results are compared with the model, every 3 ops the full dump of all entries, every 4 ops the independent checker on the raw image (damage to slots the API can no longer reach), at the end dump + reopen in both modes. Non-trivial = a handle was used (read/write/set_len) after the removal of a sibling with two children whose in-order predecessor had an open handle (measured on the byte image by the independent parser), or after a creation that followed a removal (freed slot reuse); distinct = distinct case JSON.",
        assumptions: &["abstract model as in C01"],
        quick_cases: 2500,
        thorough_cases: 30000,
        worker,
        solo,
        hang_cpu_s: 30.0,
        extra: None,
        confirm_known: false,
    }
}

//! C15 - released space is reused: repeating a net-zero cycle does not grow the file.

use crate::engine::Oracles;
use crate::gen::*;
use crate::model::{Kind, Model, Node};
use crate::ops::*;
use crate::run::{make_engine, run_ops};
use crate::runner::*;
use crate::util::Fail;
use proptest::collection::vec;
use proptest::prelude::*;
use serde::{Deserialize, Serialize};
use serde_json::Value;

#[derive(Clone, Debug, Serialize, Deserialize)]
pub struct C15Case {
    pub base: Case,
    pub cycle: Vec<Op>,
    pub reps: u8,
}

/// repetitions actually run (enough to tell growth that settles from growth that goes on)
pub const REPS: u8 = 9;

fn raw(s: &str) -> PathSpec {
    PathSpec::Raw(s.to_string())
}

/// Cycle building blocks; each returns the file to the same logical state from the
/// second repetition on (checked on the model, not assumed).
fn cycle_piece() -> BoxedStrategy<Vec<Op>> {
    let sz = || prop_oneof![4 => size_strategy(9000), 2 => proptest::sample::select(vec![1u32, 64, 100, 448, 512, 576, 4032, 4095, 4096, 4097, 8192])];
    let d = move || (sz(), any::<u8>()).prop_map(|(len, seed)| DataSpec { len, seed });
    prop_oneof![
        // create + write + remove
        5 => d().prop_map(|data| vec![Op::CreateStream { p: raw("/cyc"), data }, Op::RemoveStream { p: raw("/cyc") }]),
        // two streams, removed in creation order
        2 => (d(), d()).prop_map(|(a, b)| vec![Op::CreateStream { p: raw("/cyc"), data: a }, Op::CreateStream { p: raw("/cyc2"), data: b }, Op::RemoveStream { p: raw("/cyc") }, Op::RemoveStream { p: raw("/cyc2") }]),
        // storage subtree + recursive removal
        3 => (d(), d()).prop_map(|(a, b)| vec![
            Op::CreateStorage { p: raw("/cycdir") },
            Op::CreateStream { p: raw("/cycdir/a"), data: a },
            Op::CreateStorage { p: raw("/cycdir/sub") },
            Op::CreateStream { p: raw("/cycdir/sub/b"), data: b },
            Op::RemoveStorageAll { p: raw("/cycdir") },
        ]),
        // grow + shrink back on an existing stream
        3 => (any::<u16>(), proptest::sample::select(vec![1i32, 63, 64, 65, 500, 512, 4000, 4096, 5000])).prop_map(|(idx, dl)| vec![
            Op::SetLen { p: PathSpec::Pick { kind: PickKind::Stream, idx, spell: Spell::default() }, len: LenSpec::Rel(dl) },
            Op::SetLen { p: PathSpec::Pick { kind: PickKind::Stream, idx, spell: Spell::default() }, len: LenSpec::Rel(-dl) },
        ]),
        // overwrite with the same content
        2 => d().prop_map(|data| vec![Op::CreateStream { p: raw("/same"), data }, Op::CreateStream { p: raw("/same"), data }]),
        // mini -> regular -> mini migration and back
        2 => (sz(), any::<u8>()).prop_map(|(l, seed)| vec![
            Op::CreateStream { p: raw("/mig"), data: DataSpec { len: l % 4096, seed } },
            Op::SetLen { p: raw("/mig"), len: LenSpec::Abs(5000 + l % 3000) },
            Op::SetLen { p: raw("/mig"), len: LenSpec::Abs(l % 4096) },
            Op::RemoveStream { p: raw("/mig") },
        ]),
        // handle-based: create, write in pieces, close, remove
        2 => (d(), d()).prop_map(|(a, b)| vec![
            Op::HCreate { slot: 3, p: raw("/hcyc") },
            Op::HWriteAll { slot: 3, data: a },
            Op::HWriteAll { slot: 3, data: b },
            Op::HClose { slot: 3 },
            Op::RemoveStream { p: raw("/hcyc") },
        ]),
        // small stream, reopened and overwritten from offset 0 with a large write, removed
        2 => (sz(), proptest::sample::select(vec![4096u32, 4097, 5000, 8192, 9000]), any::<u8>()).prop_map(|(small, large, seed)| vec![
            Op::CreateStream { p: raw("/ow"), data: DataSpec { len: 1 + small % 4000, seed } },
            Op::Overwrite { p: raw("/ow"), frac: 0, data: DataSpec { len: large, seed: seed.wrapping_add(1) } },
            Op::RemoveStream { p: raw("/ow") },
        ]),
        // more than one MiniFAT sector's worth of mini streams, removed, then a reopen
        1 => (any::<u8>(), any::<bool>()).prop_map(|(seed, strict)| vec![
            Op::CreateStream { p: raw("/mf1"), data: DataSpec { len: 4000, seed } },
            Op::CreateStream { p: raw("/mf2"), data: DataSpec { len: 4000, seed: seed.wrapping_add(1) } },
            Op::CreateStream { p: raw("/mf3"), data: DataSpec { len: 3000, seed: seed.wrapping_add(2) } },
            Op::RemoveStream { p: raw("/mf1") },
            Op::RemoveStream { p: raw("/mf2") },
            Op::RemoveStream { p: raw("/mf3") },
            Op::Reopen { strict },
        ]),
        // a reopen inside the cycle
        1 => (d(), any::<bool>()).prop_map(|(data, strict)| vec![Op::CreateStream { p: raw("/rc"), data }, Op::Reopen { strict }, Op::RemoveStream { p: raw("/rc") }]),
        // truncate to zero and refill
        1 => (any::<u16>(), d()).prop_map(|(_idx, data)| vec![
            Op::CreateStream { p: raw("/refill"), data },
            Op::SetLen { p: raw("/refill"), len: LenSpec::Abs(0) },
            Op::Overwrite { p: raw("/refill"), frac: 0, data },
        ]),
    ]
    .boxed()
}

fn strategy(tier: Tier) -> BoxedStrategy<C15Case> {
    let mut p = Profile::c01();
    p.query = 0;
    p.meta = 0;
    p.reopen = 2;
    p.bad = 0;
    p.fancy = 0;
    p.min_ops = 0;
    p.max_ops = if tier == Tier::Thorough { 60 } else { 30 };
    p.max_size = 9000;
    p.names = NameProfile::Ascii;
    // fill levels around whole-sector multiples of the mini stream: k mini sectors of 64 B
    let fill = prop_oneof![3 => Just(None), 3 => proptest::sample::select(vec![7u32, 8, 9, 63, 64, 65, 127, 128, 129]).prop_map(Some)];
    (case_strategy(&p, false), fill, vec(cycle_piece(), 1..=3), 3u8..=6)
        .prop_map(|(mut base, fill, pieces, reps)| {
            if let Some(k) = fill {
                // k mini sectors in use by one stream
                base.ops.push(Op::CreateStream { p: raw("/fill"), data: DataSpec { len: k * 64, seed: 9 } });
            }
            C15Case { base, cycle: pieces.into_iter().flatten().collect(), reps }
        })
        .boxed()
}

fn fingerprint(m: &Model) -> String {
    fn rec(n: &Node, out: &mut String) {
        out.push_str(&n.name);
        out.push_str(&format!("#{:x}", n.state));
        match &n.kind {
            Kind::Stream { data } => {
                out.push_str(&format!("[{}:{:x}]", data.len(), crate::util::fnv64(data)));
            }
            Kind::Storage { children, clsid, .. } => {
                out.push_str(&crate::util::hex(clsid));
                out.push('{');
                for c in children {
                    rec(c, out);
                    out.push(',');
                }
                out.push('}');
            }
        }
    }
    let mut s = String::new();
    rec(&m.root, &mut s);
    s
}

fn report(c: &C15Case) -> CaseReport {
    let mut rep = CaseReport { evaluations: 1, ..CaseReport::default() };
    let o = Oracles { dump_every: 0, final_reopen: false, track_tables: true, ..Oracles::default() };
    let mut eng = match make_engine(&c.base, o) {
        Ok(e) => e,
        Err(f) => {
            rep.fail = Some(f);
            return rep;
        }
    };
    let (r, _) = run_ops(&mut eng, &c.base.ops, None);
    if let Err(f) = r {
        rep.fail = Some(f);
        rep.trace = std::mem::take(&mut eng.trace);
        return rep;
    }
    let mini_before = eng.model.streams().iter().any(|s| match &eng.model.get(s).unwrap().kind {
        Kind::Stream { data } => !data.is_empty() && data.len() < 4096,
        _ => false,
    });
    eng.trace.push("---- cycle repetitions ----".into());
    let mut sizes: Vec<usize> = Vec::new();
    let mut prints: Vec<String> = Vec::new();
    let mut containers: Vec<(usize, usize, usize)> = Vec::new();
    let reps = c.reps.max(REPS);
    for rpt in 0..reps {
        eng.trace.push(format!("-- repetition {}", rpt + 1));
        let (r, _) = run_ops(&mut eng, &c.cycle, None);
        if let Err(f) = r {
            rep.fail = Some(f);
            rep.trace = std::mem::take(&mut eng.trace);
            return rep;
        }
        sizes.push(eng.io.len());
        prints.push(fingerprint(&eng.model));
        containers.push(match crate::refparse::parse(&eng.snapshot()) {
            Ok(p) => (p.dir_chain.len(), p.minifat_chain.len(), p.ministream_chain.len()),
            Err(_) => (0, 0, 0),
        });
    }
    // the cycle must be net-zero from the first repetition on (model state equal after
    // every repetition), otherwise the case says nothing
    if prints.iter().any(|p| p != &prints[0]) {
        rep.excluded = 1;
        rep.classes.push("cycle_not_net_zero".into());
        return rep;
    }
    let has_mini = c.cycle.iter().any(|o| matches!(o, Op::CreateStream { data, .. } | Op::HWriteAll { data, .. } if data.len > 0 && data.len < 4096));
    let has_large = c.cycle.iter().any(|o| matches!(o, Op::CreateStream { data, .. } if data.len >= 4096));
    if has_mini {
        rep.classes.push("cycle_mini".into());
    }
    if has_large {
        rep.classes.push("cycle_large".into());
    }
    if mini_before {
        rep.classes.push("mini_stream_nonempty_before".into());
    }
    if eng.stats.has("freed_then_allocated") {
        rep.classes.push("freed_then_allocated".into());
    }
    rep.nontrivial = eng.stats.has("freed_then_allocated");
    let n = sizes.len();
    if sizes[2..].iter().any(|&s| s != sizes[1]) {
        // classify: growth that settles (last three repetitions equal) after a container
        // chain (directory / MiniFAT / mini stream; never shrunk by design) grew after
        // repetition 1, versus growth that goes on
        // the listed findings grow exactly once, between repetition 2 and 3
        let settles = sizes[2..].iter().all(|&s| s == sizes[2]);
        let first = containers[0];
        let last = containers[n - 1];
        let which = if last.2 > first.2 {
            "ministream"
        } else if last.1 > first.1 {
            "minifat"
        } else if last.0 > first.0 {
            "directory"
        } else {
            "none"
        };
        let later_growth = sizes[3..].iter().zip(sizes[2..].iter()).filter(|(a, b)| a != b).count();
        let key = if settles {
            format!("grow|settles|{}", which)
        } else if sizes[n - 1] == sizes[n - 2] && sizes[n - 2] == sizes[n - 3] && later_growth == 1 {
            format!("grow|settles_late|{}", which)
        } else {
            "grow|unbounded".to_string()
        };
        rep.fail = Some(Fail::new(
            key,
            format!(
                "file size after repetition 2 is {} but later repetitions give {:?} (sizes after each repetition: {:?}; (directory, MiniFAT, mini stream) chain lengths after each repetition: {:?})",
                sizes[1],
                &sizes[2..],
                sizes,
                containers
            ),
        ));
        rep.trace = std::mem::take(&mut eng.trace);
        return rep;
    }
    rep
}

fn worker(ctx: &Ctx) -> WorkerResult {
    run_worker(ctx, strategy(ctx.tier), report)
}

fn solo(v: &Value) -> Result<CaseReport, String> {
    run_solo(v, report)
}

pub fn def() -> PropDef {
    PropDef {
        id: "C15",
        level: "exploration",
        rule: "prefix history (0-30 ops, optionally leaving 7/8/9/63/64/65/127/128/129 mini sectors in use) followed by 9 repetitions of a cycle composed of 1-3 generated pieces (create+write+remove of mini and regular sizes, storage subtree + remove_storage_all, grow + shrink back, overwrite with the same content, mini->regular->mini migration, handle-written stream, truncate-to-zero + refill); a case counts only if the model state after every repetition equals the state after the first (net-zero on the model, else counted in 'excluded'). Oracle: byte length of the image after repetition 2 == after every later repetition; all results are also compared with the model. Non-trivial = during the run some space was freed and space was allocated afterwards; distinct = distinct case JSON.",
        assumptions: &["repetition 1 may grow the file (the statement says 'from the second repetition on')"],
        quick_cases: 2500,
        thorough_cases: 30000,
        worker,
        solo,
        hang_cpu_s: 30.0,
        extra: None,
        confirm_known: false,
    }
}

#!/bin/bash
# Usage: tools/run_mutant.sh <patch-file|revert:<commit>> <ID> [ID...]
# Applies the patch to a scratch copy of /repo, builds the harness against it and runs the
# quick checks of the given properties there. Prints "<ID> exit=<code>" per check.
# Scratch lives under /tmp/cfb-mut and is removed afterwards (shared build cache kept in
# /tmp/cfb-mut-target until tools/run_mutant.sh --clean).
set -u
if [ "${1:-}" = "--clean" ]; then rm -rf /tmp/cfb-mut /tmp/cfb-mut-target; exit 0; fi
patch="$1"; shift
W=/tmp/cfb-mut/$$; rm -rf "$W"; mkdir -p "$W/verif/harness" "$W/out"
rsync -a --exclude target --exclude .git /repo/ "$W/repo/"
rsync -a --exclude target --exclude fuzz "${VERIF_HARNESS_SRC:-/verif/harness}/" "$W/verif/harness/"
if [[ "$patch" == revert:* ]]; then
  c="${patch#revert:}"
  git -C /repo diff "$c" "$c^" > "$W/p.diff"
else
  cp "$patch" "$W/p.diff"
fi
( cd "$W/repo" && patch -p1 --no-backup-if-mismatch < "$W/p.diff" >/dev/null ) || { echo "PATCH FAILED"; rm -rf "$W"; exit 3; }
# shared build cache: cargo hashes path packages relative to the workspace root, so freshness
# across copies is decided by mtime alone - make every source of the copy newer than any artifact
find "$W/repo/src" "$W/verif/harness/src" -type f -exec touch {} +
export CARGO_TARGET_DIR=/tmp/cfb-mut-target CARGO_NET_OFFLINE=true
if [ "${MUT_TESTS:-0}" = 1 ]; then
  ( flock 9; cd "$W/repo" && timeout 300 cargo test --workspace --no-fail-fast --offline 2>&1 | grep -E "^test result|FAILED|panicked|error(\[|:)" | sort | uniq -c | head -12 ) 9>/tmp/cfb-mut.lock
fi
# the build cache is shared between runs: build and take a private copy of the binary under a lock
( flock 9
  ( cd "$W/verif/harness" && cargo build --profile checked >"$W/out/build.log" 2>&1 ) && cp /tmp/cfb-mut-target/checked/cfbverif "$W/out/cfbverif"
) 9>/tmp/cfb-mut.lock
[ -x "$W/out/cfbverif" ] || { echo "BUILD FAILED"; tail -20 "$W/out/build.log"; rm -rf "$W"; exit 3; }
for id in "$@"; do
  VERIF_REPLAY_DIR="$W/out/replays" VERIF_EVIDENCE_DIR="$W/out/evidence" VERIF_SCRATCH="$W/out/scratch" VERIF_SCALE_PCT="${MUT_SCALE:-100}" \
    "$W/out/cfbverif" check "$id" quick > "$W/out/$id.log" 2>&1
  rc=$?
  echo "$id exit=$rc  $(grep -m1 -E '^worker|^replay|^extra' "$W/out/$id.log" | cut -c1-220)"
done
rm -rf "$W"

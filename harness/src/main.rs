#![allow(dead_code, unused_imports, unused_variables)]

use cfbverif::runner::Tier;
use cfbverif::{memtrack, props, runner, util};
use std::path::PathBuf;

#[global_allocator]
static GLOBAL: memtrack::Counting = memtrack::Counting;

fn usage() -> i32 {
    eprintln!("usage: cfbverif check <ID> <quick|thorough> | replay <ID> <file> | solo <ID> <file> | worker <ID> ... | list");
    2
}

fn main() {
    util::install_panic_hook();
    cfbverif::lockwatch::install();
    let args: Vec<String> = std::env::args().skip(1).collect();
    let code = real_main(&args);
    std::process::exit(code);
}

fn real_main(args: &[String]) -> i32 {
    if args.is_empty() {
        return usage();
    }
    match args[0].as_str() {
        "gen-corpus" if args.len() >= 3 => {
            let n = cfbverif::fuzzrun::gen_corpus(&args[1], &PathBuf::from(&args[2]), 80);
            println!("{} corpus files written to {}", n, args[2]);
            0
        }
        // decodes a libFuzzer input of fz_hist into its history (case JSON on stdout)
        // one probe of a scenario step, alone in this process (limits set by the caller)
        "probe" if args.len() >= 3 && args[1] == "huge-length" => {
            cfbverif::util::install_panic_hook();
            match cfbverif::props::scenarios::huge_length_probe(args[2].parse().unwrap_or(usize::MAX)) {
                Ok(s) => {
                    println!("PROBE-OK {}", s);
                    0
                }
                Err(f) => {
                    println!("PROBE-FAIL {} :: {}", f.key, f.detail);
                    1
                }
            }
        }
        "fz-names" => {
            println!("{:?}", cfbverif::fuzzdec::names_outside_alphabet().iter().map(|c| format!("U+{:04X}", *c as u32)).collect::<Vec<_>>());
            0
        }
        "fz-decode" if args.len() >= 3 => {
            let data = std::fs::read(&args[2]).unwrap_or_default();
            let t0 = std::time::Instant::now();
            match cfbverif::fuzzsup::hist_case(&args[1], &data) {
                Some(c) => {
                    println!("{}", serde_json::to_string(&c).unwrap_or_default());
                    eprintln!("decoded {} ops in {:?}", c.ops.len(), t0.elapsed());
                    0
                }
                None => 2,
            }
        }
        "list" => {
            for d in props::all() {
                println!("{}", d.id);
            }
            0
        }
        "check" if args.len() >= 3 => {
            let def = match props::find(&args[1]) {
                Some(d) => d,
                None => return usage(),
            };
            let tier = match Tier::parse(&args[2]) {
                Some(t) => t,
                None => return usage(),
            };
            runner::check_main(&def, tier)
        }
        "replay" | "solo" if args.len() >= 3 => {
            let def = match props::find(&args[1]) {
                Some(d) => d,
                None => return usage(),
            };
            let code = runner::solo_main(&def, &PathBuf::from(&args[2]));
            if args[0] == "replay" && code == 1 {
                println!("VIOLATION property={} replay={}", def.id, args[2]);
            }
            code
        }
        "extra" if args.len() >= 5 => {
            let def = match props::find(&args[1]) {
                Some(d) => d,
                None => return usage(),
            };
            let tier = if args[2] == "thorough" { runner::Tier::Thorough } else { runner::Tier::Quick };
            runner::extra_main(&def, tier, args[3].parse().unwrap_or(1), &PathBuf::from(&args[4]))
        }
        "worker" if args.len() >= 7 => {
            let def = match props::find(&args[1]) {
                Some(d) => d,
                None => return usage(),
            };
            runner::worker_main(&def, &args[2..])
        }
        _ => usage(),
    }
}

//! Deterministic scenarios that reach states random generation does not: long monotone
//! sibling chains, and files big enough for the 110th and 237th FAT sector (first and
//! second DIFAT sector in version 3).  Each is judged by the same oracles as the generated
//! histories (model, reopen in both modes, independent checker).

use crate::engine::*;
use crate::model::*;
use crate::ops::*;
use crate::refparse;
use crate::run::{run_case, run_checker};
use crate::runner::Violation;
use crate::synth::*;
use crate::util::*;
use serde_json::Value;

fn raw(s: String) -> PathSpec {
    PathSpec::Raw(s)
}

/// N siblings created in ascending / descending CFB order (the unbalanced sibling tree
/// degenerates into a list of depth N), then lookups of each, removals and re-creations.
pub fn monotone_siblings() -> Result<u64, Violation> {
    let mut count = 0;
    for &version in &[3u8, 4u8] {
        for &descending in &[false, true] {
            for &n in &[70usize, 140] {
                let mut idx: Vec<usize> = (0..n).collect();
                if descending {
                    idx.reverse();
                }
                let name = |i: usize| format!("/deep/s{:04}", i);
                let mut ops = vec![Op::CreateStorage { p: raw("/deep".into()) }];
                for &i in idx.iter() {
                    if i % 5 == 4 {
                        ops.push(Op::CreateStorage { p: raw(name(i)) });
                    } else {
                        ops.push(Op::CreateStream { p: raw(name(i)), data: DataSpec { len: (i as u32 * 13) % 200, seed: i as u8 } });
                    }
                }
                ops.push(Op::List { p: raw("/deep".into()) });
                for i in 0..n {
                    ops.push(Op::Exists { p: raw(name(i).to_uppercase().replace("/DEEP", "/deep")) });
                    if i % 7 == 0 {
                        ops.push(Op::Entry { p: raw(name(i)) });
                    }
                }
                ops.push(Op::Reopen { strict: true });
                for i in (0..n).step_by(3) {
                    if i % 5 == 4 {
                        ops.push(Op::RemoveStorage { p: raw(name(i)) });
                    } else {
                        ops.push(Op::RemoveStream { p: raw(name(i)) });
                    }
                }
                ops.push(Op::Walk);
                for i in (0..n).step_by(6) {
                    ops.push(Op::CreateNewStream { p: raw(name(i)), data: DataSpec { len: 70, seed: 9 } });
                    ops.push(Op::ReadAll { p: raw(name(i)) });
                }
                ops.push(Op::WalkStorage { p: raw("/deep".into()) });
                let case = Case { version, max_buf: None, start: Start::Fresh, pool: vec![], ops };
                let o = Oracles { dump_every: 0, final_reopen: true, checker_every: 97, ..Oracles::default() };
                let out = run_case(&case, o, None);
                count += 1;
                if let Err(f) = out.result {
                    return Err(Violation { key: f.key, detail: format!("[monotone siblings n={} descending={} V{}] {}", n, descending, version, f.detail), case: serde_json::to_value(&case).unwrap_or(Value::Null), trace: out.trace.into_iter().rev().take(12).rev().collect() });
                }
            }
        }
    }
    // an entry with two children whose in-order predecessor sits at the end of a long right
    // spine: the pivot is created first, then n smaller names in ascending order (left child
    // and a right spine of n-1), then a larger name; the pivot is removed, then the new top
    for &version in &[3u8, 4u8] {
        for &n in &[80usize, 150] {
            let name = |i: usize| format!("/piv/a{:04}", i);
            let mut ops = vec![Op::CreateStorage { p: raw("/piv".into()) }, Op::CreateStream { p: raw("/piv/m0000".into()), data: DataSpec { len: 33, seed: 1 } }];
            for i in 0..n {
                ops.push(Op::CreateStream { p: raw(name(i)), data: DataSpec { len: (i as u32 * 7) % 90, seed: i as u8 } });
            }
            ops.push(Op::CreateStream { p: raw("/piv/z0000".into()), data: DataSpec { len: 5, seed: 2 } });
            ops.push(Op::RemoveStream { p: raw("/piv/m0000".into()) });
            ops.push(Op::List { p: raw("/piv".into()) });
            for i in (0..n).step_by(9) {
                ops.push(Op::ReadAll { p: raw(name(i)) });
            }
            ops.push(Op::Reopen { strict: true });
            ops.push(Op::RemoveStream { p: raw(name(n - 1)) });
            ops.push(Op::Walk);
            ops.push(Op::CreateStream { p: raw("/piv/m0000".into()), data: DataSpec { len: 40, seed: 3 } });
            ops.push(Op::Exists { p: raw(name(n - 2)) });
            let case = Case { version, max_buf: None, start: Start::Fresh, pool: vec![], ops };
            let o = Oracles { dump_every: 0, final_reopen: true, checker_every: 1, ..Oracles::default() };
            let out = run_case(&case, o, None);
            count += 1;
            if let Err(f) = out.result {
                return Err(Violation { key: f.key, detail: format!("[pivot with a right spine of {} below its left child, V{}] {}", n, version, f.detail), case: serde_json::to_value(&case).unwrap_or(Value::Null), trace: out.trace.into_iter().rev().take(12).rev().collect() });
            }
        }
    }
    // nesting: one create_storage_all call makes a path of 300 storages (walk depth, path
    // building and recursive removal have no small bound to hide behind)
    for &version in &[3u8, 4u8] {
        let depth = 300usize;
        let path = |d: usize| -> String { (0..d).map(|i| format!("/n{}", i % 10)).collect::<String>() };
        let mut ops = vec![Op::CreateStorageAll { p: raw(path(depth)) }];
        for &d in &[1usize, 64, 65, 128, 255, 256, 257, 299, 300] {
            ops.push(Op::CreateStream { p: raw(format!("{}/leaf", path(d))), data: DataSpec { len: (d as u32 * 31) % 5000, seed: d as u8 } });
        }
        ops.push(Op::Walk);
        ops.push(Op::WalkStorage { p: raw(path(250)) });
        ops.push(Op::List { p: raw(path(256)) });
        ops.push(Op::Entry { p: raw(format!("{}/leaf", path(300))) });
        ops.push(Op::Reopen { strict: true });
        ops.push(Op::ReadAll { p: raw(format!("{}/leaf", path(257))) });
        ops.push(Op::RemoveStorage { p: raw(path(200)) });
        ops.push(Op::RemoveStorageAll { p: raw(path(200)) });
        ops.push(Op::Walk);
        ops.push(Op::CreateStorageAll { p: raw(format!("{}/again/x/y", path(199))) });
        ops.push(Op::Walk);
        let case = Case { version, max_buf: None, start: Start::Fresh, pool: vec![], ops };
        let o = Oracles { dump_every: 0, final_reopen: true, checker_every: 1, ..Oracles::default() };
        let out = run_case(&case, o, None);
        count += 1;
        if let Err(f) = out.result {
            return Err(Violation { key: f.key, detail: format!("[300 nested storages, V{}] {}", version, f.detail), case: serde_json::to_value(&case).unwrap_or(Value::Null), trace: out.trace.into_iter().rev().take(12).rev().collect() });
        }
    }
    Ok(count)
}

fn huge_fail(what: &str, f: Fail) -> Violation {
    Violation { key: format!("{}|huge_file", f.key), detail: format!("[{}] {}", what, f.detail), case: serde_json::json!({"scenario": what}), trace: vec![] }
}

/// A version-3 file written by the library and grown in steps past the 110th and the 237th
/// FAT sector; after each step: model comparison, checker, reopen in both modes (raw bytes).
pub fn huge_library_file() -> Result<u64, Violation> {
    let what = "library-written V3 file grown to 32.4 MB (110th, 237th, 364th and 491st FAT sector: four DIFAT sectors)";
    let o = Oracles { dump_every: 0, final_reopen: false, ..Oracles::default() };
    let mut eng = Engine::new(3, None, vec![], o).map_err(|f| huge_fail(what, f))?;
    // (only the engine's 'skip very large writes' rule looks at this copy of the cap)
    eng.io.cap = 512 << 20;
    let mut steps = 0;
    let mut run = |eng: &mut Engine, op: Op| -> Result<(), Violation> {
        eng.step(&op).map_err(|f| huge_fail(what, f))?;
        run_checker(eng, "huge file step").map_err(|f| huge_fail(what, f))?;
        let c1 = eng.check_reopen(false, "huge").map_err(|f| huge_fail(what, f))?;
        drop(c1);
        let c2 = eng.check_reopen(true, "huge").map_err(|f| huge_fail(what, f))?;
        drop(c2);
        Ok(())
    };
    // the backend cap of the engine's Io is shared through the Arc; raise it on the live object
    run(&mut eng, Op::CreateStream { p: raw("/small".into()), data: DataSpec { len: 300, seed: 1 } })?;
    run(&mut eng, Op::CreateStream { p: raw("/huge".into()), data: DataSpec { len: 6_900_000, seed: 2 } })?;
    for len in [7_000_000u32, 7_200_000, 7_400_000, 15_300_000, 15_500_000, 15_600_000, 16_600_000] {
        run(&mut eng, Op::SetLen { p: raw("/huge".into()), len: LenSpec::Abs(len) })?;
        steps += 1;
    }
    run(&mut eng, Op::CreateStream { p: raw("/after".into()), data: DataSpec { len: 70_000, seed: 3 } })?;
    // a third and a fourth DIFAT sector (364th and 491st FAT sector: 23.8 MB and 32.1 MB): the DIFAT
    // chain gets a sector appended behind one that was itself appended
    for len in [23_300_000u32, 23_600_000, 23_800_000, 24_000_000, 31_900_000, 32_200_000, 32_400_000] {
        run(&mut eng, Op::SetLen { p: raw("/huge".into()), len: LenSpec::Abs(len) })?;
        steps += 1;
    }
    let nd = refparse::parse(&eng.snapshot()).map(|p| p.difat_sectors.len()).unwrap_or(0);
    if nd < 4 {
        return Err(huge_fail(what, Fail::new("harness|scenario", format!("expected >= 4 DIFAT sectors at 32.4 MB, the independent parser sees {}", nd))));
    }
    run(&mut eng, Op::SetLen { p: raw("/huge".into()), len: LenSpec::Abs(100) })?;
    run(&mut eng, Op::CreateStream { p: raw("/again".into()), data: DataSpec { len: 9_000_000, seed: 4 } })?;
    // the released space is taken again up to the fourth DIFAT sector
    run(&mut eng, Op::SetLen { p: raw("/again".into()), len: LenSpec::Abs(32_300_000) })?;
    Ok(steps + 6)
}

/// A foreign version-3 file of 15.6 MB with two DIFAT sectors (permuted placement, so the
/// DIFAT chain does not run in ascending sector order), opened and grown until new FAT
/// sectors are needed, then reopened.
pub fn huge_foreign_file() -> Result<u64, Violation> {
    let what = "foreign V3 file of 15.6 MB with two DIFAT sectors, then grown";
    let mut model = Model::new();
    model.insert(&[], Node { name: "payload".into(), state: 7, kind: Kind::Stream { data: pattern(5, 0, 15_420_000) } });
    model.insert(&[], Node { name: "mini".into(), state: 0, kind: Kind::Stream { data: pattern(6, 0, 900) } });
    model.insert(&[], Node { name: "dir".into(), state: 0, kind: Kind::Storage { children: vec![], clsid: [3; 16], created: TimeVal::Exact(1), modified: TimeVal::Exact(2) } });
    let mut done = 0;
    for choices in [vec![65535u16, 3, 40000, 12, 65000, 9, 31000, 2, 50000], vec![1u16, 60000, 7, 45000, 300, 20000]] {
        let (img, info) = synthesize(&model, 3, &choices, 0);
        if info.difat_sectors < 2 {
            return Err(huge_fail(what, Fail::new("harness|scenario", format!("synthesized image has {} DIFAT sectors", info.difat_sectors))));
        }
        if let Some((id, d)) = refparse::check(&img).first() {
            return Err(huge_fail(what, Fail::new("harness|synth_invalid", format!("{} {}", id, d))));
        }
        for strict in [false, true] {
            let o = Oracles { dump_every: 0, final_reopen: false, ..Oracles::default() };
            let mut eng = Engine::from_image(img.clone(), model.clone(), 3, None, vec![], o, strict).map_err(|f| huge_fail(what, f))?;
            eng.io.cap = 512 << 20;
            eng.check_live_dump().map_err(|f| huge_fail(what, f))?;
            for op in [
                Op::CreateStream { p: raw("/dir/grow1".into()), data: DataSpec { len: 400_000, seed: 8 } },
                Op::SetLen { p: raw("/payload".into()), len: LenSpec::Rel(600_000) },
                Op::CreateStream { p: raw("/dir/grow2".into()), data: DataSpec { len: 300_000, seed: 9 } },
                Op::RemoveStream { p: raw("/dir/grow1".into()) },
            ] {
                eng.step(&op).map_err(|f| huge_fail(what, f))?;
                run_checker(&mut eng, "huge foreign step").map_err(|f| huge_fail(what, f))?;
                let c1 = eng.check_reopen(false, "huge_foreign").map_err(|f| huge_fail(what, f))?;
                drop(c1);
                let c2 = eng.check_reopen(true, "huge_foreign").map_err(|f| huge_fail(what, f))?;
                drop(c2);
                done += 1;
            }
        }
    }
    Ok(done)
}

/// C08 on a file whose FAT sectors are exactly full and that carries trailing non-zero bytes
/// no FAT sector covers (accepted by both open modes): growing a stream appends sectors into
/// that region; the gained bytes must still read as zero.
pub fn trailing_garbage_growth() -> Result<u64, Violation> {
    let what = "file with exactly full FAT sectors and trailing garbage, then set_len growth";
    let mut done = 0;
    for &version in &[3u8, 4u8] {
        let per = if version == 3 { 128usize } else { 1024 };
        let sl = if version == 3 { 512usize } else { 4096 };
        // fill the file to exactly `per` sectors with one big stream
        let mut found = None;
        for big in ((per - 6) * sl..(per - 1) * sl).step_by(sl) {
            let o = Oracles::default();
            let mut eng = Engine::new(version, None, vec![], o).map_err(|f| huge_fail(what, f))?;
            eng.io.cap = 512 << 20;
            eng.step(&Op::CreateStream { p: raw("/fill".into()), data: DataSpec { len: big as u32, seed: 5 } }).map_err(|f| huge_fail(what, f))?;
            eng.step(&Op::CreateStream { p: raw("/small".into()), data: DataSpec { len: 300, seed: 6 } }).map_err(|f| huge_fail(what, f))?;
            eng.close_all_handles().map_err(|f| huge_fail(what, f))?;
            let snap = eng.snapshot();
            if let Ok(p) = refparse::parse(&snap) {
                if p.nsectors == per && p.fat.iter().take(per).all(|&c| c != refparse::FREESECT) {
                    found = Some((snap, eng.model.clone()));
                    break;
                }
            }
        }
        let (mut img, model) = match found {
            Some(x) => x,
            None => return Err(huge_fail(what, Fail::new("harness|scenario", format!("could not fill a V{} file to exactly {} sectors", version, per)))),
        };
        img.extend(std::iter::repeat(0x41u8).take(6 * sl + 100));
        for strict in [false, true] {
            let o = Oracles { grow_check: true, no_strict: true, ..Oracles::default() };
            let mut eng = Engine::from_image(img.clone(), model.clone(), version, None, vec![], o, strict).map_err(|f| huge_fail(what, f))?;
            eng.io.cap = 512 << 20;
            for op in [
                Op::CreateStream { p: raw("/g".into()), data: DataSpec { len: 10, seed: 1 } },
                Op::SetLen { p: raw("/g".into()), len: LenSpec::Abs(5000) },
                Op::SetLen { p: raw("/small".into()), len: LenSpec::Abs(4200) },
                Op::SetLen { p: raw("/g".into()), len: LenSpec::Abs(3 * sl as u32 + 4097) },
                Op::ReadAll { p: raw("/g".into()) },
                Op::ReadAll { p: raw("/small".into()) },
                Op::ReadAll { p: raw("/fill".into()) },
            ] {
                eng.step(&op).map_err(|f| huge_fail(what, f))?;
                done += 1;
            }
            eng.check_live_dump().map_err(|f| huge_fail(what, f))?;
        }
    }
    Ok(done)
}

/// C17 under injected write faults: a metadata setter fails at its N-th write/seek/flush call
/// (every N, two error kinds, with and without side effects of the failing call), the caller
/// repeats it (same value, a different one, or the value the object had before), and once a call has returned Ok the value is
/// what entry() shows and what the raw bytes show when reopened in both modes.
pub fn metadata_retry_after_fault() -> Result<(u64, u64), Violation> {
    use crate::backend::{FaultDomain, Io};
    use crate::fault::new_ctl;
    use std::io::Write;
    use std::time::{Duration, SystemTime, UNIX_EPOCH};
    let what = "metadata setter fails on an injected write fault and is repeated";
    let fail = |key: &str, detail: String, trace: &Vec<String>| Violation { key: key.to_string(), detail: format!("[{}] {}", what, detail), case: serde_json::json!({"scenario": what}), trace: trace.clone() };
    let mut plans = 0u64;
    let mut fired_plans = 0u64;
    let targets: [(&str, bool); 4] = [("/", true), ("/st", true), ("/st/inner", true), ("/st/s", false)];
    for &version in &[3u8, 4u8] {
        for setter in 0..5u8 {
            for &(path, is_storage) in targets.iter() {
                if setter == 1 && !is_storage {
                    continue;
                }
                if path == "/" && setter >= 2 {
                    continue;
                }
                for second in [0u8, 1, 2] {
                    let same_value = second == 0;
                    for &kind in &[std::io::ErrorKind::Other, std::io::ErrorKind::TimedOut] {
                        for side in [false, true] {
                            let mut n = 0u64;
                            loop {
                                n += 1;
                                plans += 1;
                                let mut trace = vec![format!("V{} setter {} on {} second call sets {} kind={:?} side_effects={} fault at call {}", version, setter, path, ["the same value", "another value", "the value before the failed call"][second as usize], kind, side, n)];
                                let ctl = new_ctl(FaultDomain::WriteSide);
                                let io = Io::new().with_ctl(ctl.clone());
                                let img = io.peer();
                                let v = if version == 3 { cfb::Version::V3 } else { cfb::Version::V4 };
                                let mut c = cfb::CompoundFile::create_with_version(v, io).map_err(|e| fail("harness|create", e.to_string(), &trace))?;
                                (|| -> std::io::Result<()> {
                                    c.create_storage("/st")?;
                                    for i in 0..7 {
                                        c.create_storage(format!("/fill{}", i))?;
                                    }
                                    c.create_storage("/st/inner")?;
                                    c.create_stream("/st/s")?.write_all(&[7u8; 100])?;
                                    for p in ["/st", "/st/inner"] {
                                        c.set_created_time(p, UNIX_EPOCH + Duration::new(900_000_000, 0))?;
                                        c.set_modified_time(p, UNIX_EPOCH + Duration::new(900_000_000, 0))?;
                                    }
                                    c.flush()
                                })()
                                .map_err(|e| fail("harness|setup", e.to_string(), &trace))?;
                                let t1 = UNIX_EPOCH + Duration::new(1_000_000_000 + n, 500);
                                let t2 = UNIX_EPOCH + Duration::new(1_500_000_000 + n, 700);
                                let id1 = uuid::Uuid::from_u128(0x1111_2222_3333_4444_5555_6666_7777_8888 + n as u128);
                                let id2 = uuid::Uuid::from_u128(0x9999_aaaa_bbbb_cccc_dddd_eeee_ffff_0000 + n as u128);
                                let t0 = UNIX_EPOCH + Duration::new(900_000_000, 0);
                                let apply = |c: &mut cfb::CompoundFile<Io>, is_second: bool| -> std::io::Result<()> {
                                    if is_second && second == 2 {
                                        // back to the value the object had before the failed call
                                        return match setter {
                                            0 => c.set_state_bits(path, 0),
                                            1 => c.set_storage_clsid(path, uuid::Uuid::nil()),
                                            2 => c.set_created_time(path, t0),
                                            3 => c.set_modified_time(path, t0),
                                            _ => c.touch(path),
                                        };
                                    }
                                    let alt = is_second && !same_value;
                                    match setter {
                                        0 => c.set_state_bits(path, if alt { 0x0badf00d } else { 0xdeadbeef }),
                                        1 => c.set_storage_clsid(path, if alt { id2 } else { id1 }),
                                        2 => c.set_created_time(path, if alt { t2 } else { t1 }),
                                        3 => c.set_modified_time(path, if alt { t2 } else { t1 }),
                                        _ => c.touch(path),
                                    }
                                };
                                {
                                    let mut g = ctl.lock().unwrap();
                                    g.fault_at = vec![n];
                                    g.fault_kind = kind;
                                    g.fault_side_effects = side;
                                    g.domain_seq = 0;
                                    g.faults_enabled = true;
                                }
                                let before = SystemTime::now();
                                let r1 = guard("setter", || apply(&mut c, false)).map_err(|f| fail(&f.key, f.detail, &trace))?;
                                let fired = !ctl.lock().unwrap().fired.is_empty();
                                ctl.lock().unwrap().faults_enabled = false;
                                trace.push(format!("first call -> {:?}; fault fired: {}", r1.as_ref().map_err(|e| e.to_string()), fired));
                                if !fired {
                                    if let Err(e) = r1 {
                                        return Err(fail("mismatch|setter|no_fault|Ok|Err", format!("setter failed without a fault: {}", e), &trace));
                                    }
                                    break;
                                }
                                fired_plans += 1;
                                if r1.is_ok() {
                                    return Err(fail("write_fault|setter|fault_swallowed", "a write fault fired during the setter but it returned Ok".to_string(), &trace));
                                }
                                let r2 = guard("setter", || apply(&mut c, true)).map_err(|f| fail(&f.key, f.detail, &trace))?;
                                trace.push(format!("second call -> {:?}", r2.as_ref().map_err(|e| e.to_string())));
                                if r2.is_err() {
                                    // a later call may fail after a fault; nothing to judge
                                    continue;
                                }
                                let show = |e: &cfb::Entry| (e.state_bits(), *e.clsid(), e.created(), e.modified());
                                let live = match if path == "/" { Ok(c.root_entry()) } else { c.entry(path) } {
                                    Ok(e) => show(&e),
                                    Err(e) => return Err(fail("mismatch|entry|after_setter|Ok|Err", e.to_string(), &trace)),
                                };
                                let alt = !same_value;
                                let zero_time = UNIX_EPOCH - Duration::from_secs(11_644_473_600);
                                let ok_live = match setter {
                                    // time setters leave streams untouched: always the zero FILETIME
                                    2 | 3 | 4 if !is_storage => live.2 == zero_time && live.3 == zero_time,
                                    0 if second == 2 => live.0 == 0,
                                    1 if second == 2 => live.1 == uuid::Uuid::nil(),
                                    2 if second == 2 => live.2 == t0,
                                    3 if second == 2 => live.3 == t0,
                                    0 => live.0 == if alt { 0x0badf00d } else { 0xdeadbeef },
                                    1 => live.1 == if alt { id2 } else { id1 },
                                    2 => live.2 == if alt { t2 } else { t1 },
                                    3 => live.3 == if alt { t2 } else { t1 },
                                    _ => live.3 >= before - Duration::from_micros(1) && live.3 <= SystemTime::now(),
                                };
                                if !ok_live {
                                    return Err(fail("mismatch|entry|after_repeated_setter|value", format!("the setter returned Ok but entry() shows {:?}", live), &trace));
                                }
                                c.flush().ok();
                                let bytes = img.snapshot();
                                for strict in [false, true] {
                                    let opened = guard("open", || open_options(None, strict).open_with(Io::from_bytes(bytes.clone()))).map_err(|f| fail(&f.key, f.detail, &trace))?;
                                    let again = match opened {
                                        Ok(a) => a,
                                        Err(e) => return Err(fail("reopen|after_repeated_setter|open_fails", format!("strict={}: {}", strict, e), &trace)),
                                    };
                                    let got = match if path == "/" { Ok(again.root_entry()) } else { again.entry(path) } {
                                        Ok(e) => show(&e),
                                        Err(e) => return Err(fail("reopen|after_repeated_setter|entry_missing", e.to_string(), &trace)),
                                    };
                                    if got != live {
                                        return Err(fail(
                                            "reopen|after_repeated_setter|metadata_differs",
                                            format!("the setter returned Ok and entry() shows {:?}, but the raw bytes reopened (strict={}) show {:?}", live, strict, got),
                                            &trace,
                                        ));
                                    }
                                }
                                if n > 200 {
                                    return Err(fail("harness|scenario", "a metadata setter makes more than 200 write-side calls".to_string(), &trace));
                                }
                            }
                        }
                    }
                }
            }
        }
    }
    Ok((plans, fired_plans))
}

/// Every directory slot in turn: a directory of three sectors plus two entries (V3: 14
/// entries, V4: 98) is built, then for each slot k the entry living there is removed and a
/// new one created (which takes the freed slot), with the independent checker and a reopen
/// of the raw bytes in both modes after every step. Covers code that depends on the index
/// of the slot being reused (first slot of a directory sector etc.).
pub fn dir_slot_sweep() -> Result<u64, Violation> {
    let what = "directory slot sweep (remove + create on every slot of a 3-sector directory)";
    let mut steps = 0u64;
    for &version in &[3u8, 4u8] {
        let per = if version == 3 { 4usize } else { 32 };
        let n = 3 * per + 1; // + root = 3 sectors and two entries
        let o = Oracles { dump_every: 0, final_reopen: true, ..Oracles::default() };
        let mut eng = Engine::new(version, None, vec![], o).map_err(|f| huge_fail(what, f))?;
        let name = |i: usize, gen: u32| format!("/e{:03}g{}", i, gen);
        for i in 1..=n {
            let op = if i % 9 == 4 { Op::CreateStorage { p: raw(name(i, 0)) } } else { Op::CreateStream { p: raw(name(i, 0)), data: DataSpec { len: (i as u32 * 29) % 150, seed: i as u8 } } };
            eng.step(&op).map_err(|f| huge_fail(what, f))?;
        }
        for k in 1..=n {
            let rm = if k % 9 == 4 { Op::RemoveStorage { p: raw(name(k, 0)) } } else { Op::RemoveStream { p: raw(name(k, 0)) } };
            eng.step(&rm).map_err(|f| huge_fail(what, f))?;
            let mk = if k % 2 == 0 { Op::CreateStorage { p: raw(name(k, 1)) } } else { Op::CreateStream { p: raw(name(k, 1)), data: DataSpec { len: 40 + k as u32, seed: 200 } } };
            eng.step(&mk).map_err(|f| huge_fail(what, f))?;
            run_checker(&mut eng, "slot sweep step").map_err(|f| huge_fail(what, f))?;
            drop(eng.check_reopen(false, "slot sweep").map_err(|f| huge_fail(what, f))?);
            drop(eng.check_reopen(true, "slot sweep").map_err(|f| huge_fail(what, f))?);
            steps += 1;
        }
        // the same once more after a reopen (allocation state rebuilt from the file)
        eng.step(&Op::Reopen { strict: true }).map_err(|f| huge_fail(what, f))?;
        for k in (1..=n).step_by(per - 1) {
            let rm = if k % 2 == 0 { Op::RemoveStorage { p: raw(name(k, 1)) } } else { Op::RemoveStream { p: raw(name(k, 1)) } };
            eng.step(&rm).map_err(|f| huge_fail(what, f))?;
            eng.step(&Op::CreateStream { p: raw(name(k, 2)), data: DataSpec { len: 10, seed: 7 } }).map_err(|f| huge_fail(what, f))?;
            run_checker(&mut eng, "slot sweep step").map_err(|f| huge_fail(what, f))?;
            drop(eng.check_reopen(true, "slot sweep").map_err(|f| huge_fail(what, f))?);
            steps += 1;
        }
        eng.check_live_dump().map_err(|f| huge_fail(what, f))?;
    }
    Ok(steps)
}

/// A read-only backend for files too large to hold in memory: an explicit prefix (header,
/// directory, DIFAT and FAT sectors) followed by stream data given by a formula.
struct SparseIo {
    prefix: std::sync::Arc<Vec<u8>>,
    len: u64,
    pos: u64,
}

fn sparse_pat(stream_off: u64) -> u8 {
    ((stream_off.wrapping_mul(0x9E37_79B9_7F4A_7C15) >> 56) as u8) ^ ((stream_off >> 32) as u8).wrapping_mul(37) ^ ((stream_off >> 12) as u8)
}

impl std::io::Read for SparseIo {
    fn read(&mut self, buf: &mut [u8]) -> std::io::Result<usize> {
        let n = (buf.len() as u64).min(self.len.saturating_sub(self.pos)) as usize;
        let base = self.prefix.len() as u64;
        for (i, b) in buf[..n].iter_mut().enumerate() {
            let off = self.pos + i as u64;
            *b = if off < base { self.prefix[off as usize] } else { sparse_pat(off - base) };
        }
        self.pos += n as u64;
        Ok(n)
    }
}

impl std::io::Seek for SparseIo {
    fn seek(&mut self, pos: std::io::SeekFrom) -> std::io::Result<u64> {
        let new = match pos {
            std::io::SeekFrom::Start(p) => Some(p),
            std::io::SeekFrom::End(d) => (self.len as i128 + d as i128).try_into().ok(),
            std::io::SeekFrom::Current(d) => (self.pos as i128 + d as i128).try_into().ok(),
        };
        match new {
            Some(p) => {
                self.pos = p;
                Ok(p)
            }
            None => Err(std::io::Error::new(std::io::ErrorKind::InvalidInput, "seek before start")),
        }
    }
}

/// A valid version-4 file of a little more than 4 GiB holding one stream that runs across
/// file offset 2^32 (and whose own offsets pass 2^32): opened in both modes through a sparse
/// backend, read around both boundaries and at the end. Offsets that are computed in 32 bits
/// anywhere wrap around here and nowhere else.
pub fn file_beyond_4gib() -> Result<u64, Violation> {
    use std::io::{Read, Seek, SeekFrom};
    let what = "valid V4 file of 4 GiB + 10 MiB with one stream across file offset 2^32 (sparse read-only backend)";
    let fail = |key: &str, detail: String| Violation { key: key.to_string(), detail: format!("[{}] {}", what, detail), case: serde_json::json!({"scenario": what}), trace: vec![] };
    const SL: u64 = 4096;
    let size: u64 = (4u64 << 30) + (10 << 20) + 123;
    let n_data = (size + SL - 1) / SL;
    // sectors: 0 directory, 1 DIFAT sector, 2..2+f FAT sectors, then the data
    let mut f = 1u64;
    loop {
        let total = 2 + f + n_data;
        if f * 1024 >= total {
            break;
        }
        f += 1;
    }
    let d0 = 2 + f;
    let total = d0 + n_data;
    if f <= 109 || f > 109 + 1023 {
        return Err(fail("harness|scenario", format!("{} FAT sectors do not fit header + one DIFAT sector", f)));
    }
    let mut prefix = vec![0u8; ((d0 + 1) * SL) as usize];
    let put32 = |b: &mut Vec<u8>, off: usize, v: u32| b[off..off + 4].copy_from_slice(&v.to_le_bytes());
    let put16 = |b: &mut Vec<u8>, off: usize, v: u16| b[off..off + 2].copy_from_slice(&v.to_le_bytes());
    const END: u32 = 0xFFFF_FFFE;
    const FREE: u32 = 0xFFFF_FFFF;
    // header
    prefix[0..8].copy_from_slice(&[0xD0, 0xCF, 0x11, 0xE0, 0xA1, 0xB1, 0x1A, 0xE1]);
    put16(&mut prefix, 24, 0x3E);
    put16(&mut prefix, 26, 4);
    put16(&mut prefix, 28, 0xFFFE);
    put16(&mut prefix, 30, 12);
    put16(&mut prefix, 32, 6);
    put32(&mut prefix, 40, 1);
    put32(&mut prefix, 44, f as u32);
    put32(&mut prefix, 48, 0);
    put32(&mut prefix, 56, 4096);
    put32(&mut prefix, 60, END);
    put32(&mut prefix, 64, 0);
    put32(&mut prefix, 68, 1);
    put32(&mut prefix, 72, 1);
    for i in 0..109usize {
        put32(&mut prefix, 76 + 4 * i, 2 + i as u32);
    }
    let soff = |s: u64| ((s + 1) * SL) as usize;
    // DIFAT sector (sector 1)
    for c in 0..1023usize {
        let idx = 109 + c as u64;
        put32(&mut prefix, soff(1) + 4 * c, if idx < f { (2 + idx) as u32 } else { FREE });
    }
    put32(&mut prefix, soff(1) + 4092, END);
    // FAT
    for s in 0..f * 1024 {
        let v = if s == 0 {
            END
        } else if s == 1 {
            0xFFFF_FFFC
        } else if s < d0 {
            0xFFFF_FFFD
        } else if s < total - 1 {
            (s + 1) as u32
        } else if s == total - 1 {
            END
        } else {
            FREE
        };
        put32(&mut prefix, soff(2) + 4 * s as usize, v);
    }
    // directory (sector 0): root, one stream, 30 unallocated entries
    let dir = soff(0);
    let put_name = |b: &mut Vec<u8>, off: usize, name: &str| {
        let u: Vec<u16> = name.encode_utf16().collect();
        for (i, c) in u.iter().enumerate() {
            b[off + 2 * i..off + 2 * i + 2].copy_from_slice(&c.to_le_bytes());
        }
        b[off + 64..off + 66].copy_from_slice(&(((u.len() + 1) * 2) as u16).to_le_bytes());
    };
    for e in 0..32usize {
        let off = dir + 128 * e;
        put32(&mut prefix, off + 68, FREE);
        put32(&mut prefix, off + 72, FREE);
        put32(&mut prefix, off + 76, FREE);
    }
    put_name(&mut prefix, dir, "Root Entry");
    prefix[dir + 66] = 5;
    prefix[dir + 67] = 1;
    put32(&mut prefix, dir + 76, 1);
    put32(&mut prefix, dir + 116, END);
    put_name(&mut prefix, dir + 128, "big");
    prefix[dir + 128 + 66] = 2;
    prefix[dir + 128 + 67] = 1;
    put32(&mut prefix, dir + 128 + 116, d0 as u32);
    prefix[dir + 128 + 120..dir + 128 + 128].copy_from_slice(&size.to_le_bytes());
    let prefix = std::sync::Arc::new(prefix);
    let file_len = (total + 1) * SL;
    let mut reads = 0u64;
    for strict in [false, true] {
        let io = SparseIo { prefix: prefix.clone(), len: file_len, pos: 0 };
        let opened = guard("open", || open_options(None, strict).open_with(io)).map_err(|f| fail(&f.key, f.detail))?;
        let mut c = match opened {
            Ok(c) => c,
            Err(e) => return Err(fail(&format!("mismatch|open|file_beyond_4gib|Ok|Err|{}", if strict { "strict" } else { "permissive" }), format!("open (strict={}) rejects the file: {}", strict, e))),
        };
        let r = guard("big_reads", || -> Result<u64, String> {
            let e = c.entry("/big").map_err(|e| format!("entry: {}", e))?;
            if e.len() != size {
                return Err(format!("entry(\"/big\").len() = {}, expected {}", e.len(), size));
            }
            let mut s = c.open_stream("/big").map_err(|e| format!("open_stream: {}", e))?;
            if s.len() != size {
                return Err(format!("Stream::len() = {}, expected {}", s.len(), size));
            }
            let base = (d0 + 1) * SL;
            // where the *file* offset passes 2^32, where the *stream* offset passes 2^32, start, end
            let spots = [0u64, (1u64 << 32) - base - 5000, (1u64 << 32) - 5000, size - 9000, (1u64 << 31) - 3000];
            let mut n = 0;
            for &at in spots.iter() {
                let got_pos = s.seek(SeekFrom::Start(at)).map_err(|e| format!("seek({}): {}", at, e))?;
                if got_pos != at {
                    return Err(format!("seek(Start({})) returned {}", at, got_pos));
                }
                let want = 9000usize.min((size - at) as usize);
                let mut buf = vec![0u8; want];
                s.read_exact(&mut buf).map_err(|e| format!("read_exact at {}: {}", at, e))?;
                if let Some(i) = (0..want).find(|&i| buf[i] != sparse_pat(at + i as u64)) {
                    return Err(format!("stream byte {} reads {:#x}, expected {:#x} (file offset {:#x})", at + i as u64, buf[i], sparse_pat(at + i as u64), base + at + i as u64));
                }
                let p = s.stream_position().map_err(|e| e.to_string())?;
                if p != at + want as u64 {
                    return Err(format!("position after reading {} bytes at {} is {}", want, at, p));
                }
                n += 1;
            }
            let p = s.seek(SeekFrom::End(-50)).map_err(|e| format!("seek(End(-50)): {}", e))?;
            if p != size - 50 {
                return Err(format!("seek(End(-50)) returned {}, expected {}", p, size - 50));
            }
            let mut tail = Vec::new();
            s.read_to_end(&mut tail).map_err(|e| format!("read_to_end: {}", e))?;
            if tail.len() != 50 || (0..50).any(|i| tail[i] != sparse_pat(size - 50 + i as u64)) {
                return Err(format!("read_to_end from len-50 returned {} bytes / wrong bytes", tail.len()));
            }
            if s.seek(SeekFrom::Start(size + 1)).is_ok() {
                return Err("seek beyond the end returned Ok".to_string());
            }
            Ok(n + 1)
        })
        .map_err(|f| fail(&f.key, f.detail))?;
        match r {
            Ok(n) => reads += n,
            Err(m) => return Err(fail(&format!("mismatch|read|file_beyond_4gib|{}", if strict { "strict" } else { "permissive" }), m)),
        }
    }
    Ok(reads)
}


/// A growable backend that stores only the 4096-byte pages that are not all zero (a file of
/// several GiB of zero-filled stream data costs a few MB).
#[derive(Clone)]
pub struct SparseRw {
    inner: std::sync::Arc<std::sync::Mutex<SparseInner>>,
    pos: u64,
}
struct SparseInner {
    pages: std::collections::HashMap<u64, Box<[u8; 4096]>>,
    len: u64,
}
impl SparseRw {
    pub fn new() -> SparseRw {
        SparseRw { inner: std::sync::Arc::new(std::sync::Mutex::new(SparseInner { pages: std::collections::HashMap::new(), len: 0 })), pos: 0 }
    }
    pub fn len(&self) -> u64 {
        self.inner.lock().unwrap().len
    }
    pub fn stored_pages(&self) -> usize {
        self.inner.lock().unwrap().pages.len()
    }
    /// The whole image; untouched zero pages of the vector cost no memory (zeroed allocation).
    pub fn materialise(&self) -> Vec<u8> {
        let g = self.inner.lock().unwrap();
        let mut v = vec![0u8; g.len as usize];
        for (k, p) in g.pages.iter() {
            let off = (*k * 4096) as usize;
            let n = 4096.min(v.len().saturating_sub(off));
            v[off..off + n].copy_from_slice(&p[..n]);
        }
        v
    }
}
impl std::io::Read for SparseRw {
    fn read(&mut self, buf: &mut [u8]) -> std::io::Result<usize> {
        let g = self.inner.lock().unwrap();
        let n = (buf.len() as u64).min(g.len.saturating_sub(self.pos)) as usize;
        let mut done = 0;
        while done < n {
            let off = self.pos + done as u64;
            let (pg, po) = (off / 4096, (off % 4096) as usize);
            let k = (4096 - po).min(n - done);
            match g.pages.get(&pg) {
                Some(p) => buf[done..done + k].copy_from_slice(&p[po..po + k]),
                None => buf[done..done + k].iter_mut().for_each(|b| *b = 0),
            }
            done += k;
        }
        drop(g);
        self.pos += n as u64;
        Ok(n)
    }
}
impl std::io::Write for SparseRw {
    fn write(&mut self, buf: &[u8]) -> std::io::Result<usize> {
        let mut g = self.inner.lock().unwrap();
        let mut done = 0;
        while done < buf.len() {
            let off = self.pos + done as u64;
            let (pg, po) = (off / 4096, (off % 4096) as usize);
            let k = (4096 - po).min(buf.len() - done);
            let chunk = &buf[done..done + k];
            if let Some(p) = g.pages.get_mut(&pg) {
                p[po..po + k].copy_from_slice(chunk);
            } else if chunk.iter().any(|&b| b != 0) {
                let mut p = Box::new([0u8; 4096]);
                p[po..po + k].copy_from_slice(chunk);
                g.pages.insert(pg, p);
            }
            done += k;
        }
        self.pos += buf.len() as u64;
        if self.pos > g.len {
            g.len = self.pos;
        }
        Ok(buf.len())
    }
    fn flush(&mut self) -> std::io::Result<()> {
        Ok(())
    }
}
impl std::io::Seek for SparseRw {
    fn seek(&mut self, pos: std::io::SeekFrom) -> std::io::Result<u64> {
        let len = self.len();
        let new: Option<u64> = match pos {
            std::io::SeekFrom::Start(p) => Some(p),
            std::io::SeekFrom::End(d) => (len as i128 + d as i128).try_into().ok(),
            std::io::SeekFrom::Current(d) => (self.pos as i128 + d as i128).try_into().ok(),
        };
        match new {
            Some(p) => {
                self.pos = p;
                Ok(p)
            }
            None => Err(std::io::Error::new(std::io::ErrorKind::InvalidInput, "seek before start")),
        }
    }
}

/// The library itself grows a version-4 file past 4 GiB (one stream made 4 GiB + 9 MiB long by
/// set_len, on a sparse backend), writes recognisable blocks where the file offset and the stream
/// offset pass 2^31 and 2^32 and at the end, and reads them back; then the independent checker
/// judges the whole image (1030 FAT sectors, a DIFAT sector in version 4) and both open modes
/// reopen it and read the blocks again.
pub fn grow_beyond_4gib() -> Result<u64, Violation> {
    use std::io::{Read, Seek, SeekFrom, Write};
    let what = "library-written V4 file grown past 4 GiB (set_len on a sparse backend), blocks written around 2^31/2^32, checker + reopen";
    let fail = |key: &str, detail: String| Violation { key: key.to_string(), detail: format!("[{}] {}", what, detail), case: serde_json::json!({"scenario": what}), trace: vec![] };
    let io = SparseRw::new();
    let size: u64 = (4u64 << 30) + (9 << 20) + 777;
    let spots: Vec<u64> = vec![0, (1u64 << 31) - 70_000, (1u64 << 32) - 70_000, (1u64 << 32) - 3000, size - 9000];
    let block = |at: u64| -> Vec<u8> { (0..9000u64.min(size - at)).map(|i| sparse_pat(at + i) | 1).collect() };
    let small: Vec<u8> = pattern(9, 0, 300);
    let mut steps = 0u64;
    let written = guard("grow_beyond_4gib", || -> Result<(), String> {
        let mut c = cfb::CompoundFile::create_with_version(cfb::Version::V4, io.clone()).map_err(|e| format!("create: {}", e))?;
        c.create_stream("/small").and_then(|mut s| s.write_all(&small)).map_err(|e| format!("small: {}", e))?;
        let mut s = c.create_stream("/big").map_err(|e| format!("create_stream: {}", e))?;
        s.write_all(&block(0)).map_err(|e| format!("write: {}", e))?;
        s.set_len(size).map_err(|e| format!("set_len({}): {}", size, e))?;
        if s.len() != size {
            return Err(format!("len() after set_len is {}", s.len()));
        }
        for &at in spots.iter().skip(1) {
            let p = s.seek(SeekFrom::Start(at)).map_err(|e| format!("seek({}): {}", at, e))?;
            if p != at {
                return Err(format!("seek(Start({})) returned {}", at, p));
            }
            s.write_all(&block(at)).map_err(|e| format!("write at {}: {}", at, e))?;
        }
        s.flush().map_err(|e| format!("flush: {}", e))?;
        drop(s);
        c.flush().map_err(|e| format!("flush: {}", e))?;
        Ok(())
    })
    .map_err(|f| fail(&f.key, f.detail))?;
    if let Err(e) = written {
        return Err(fail("mismatch|grow_beyond_4gib|write|Ok|Err", e));
    }
    steps += 1;
    // the image by the independent checker
    let img = io.materialise();
    refparse::MAX_DUMP.with(|m| m.set(1 << 20));
    let parsed = refparse::parse(&img);
    refparse::MAX_DUMP.with(|m| m.set(u64::MAX));
    match parsed {
        Err(e) => return Err(fail("rule|R00-no-header|beyond_4gib", format!("the image ({} bytes) is not a compound file: {}", img.len(), e))),
        Ok(p) => {
            if let Some((id, d)) = p.rules.first() {
                return Err(fail(&format!("rule|{}|beyond_4gib", id), format!("independent checker: {} - {} [{} rule violations]", id, d, p.rules.len())));
            }
            if p.difat_sectors.is_empty() || (img.len() as u64) < size {
                return Err(fail("harness|scenario", format!("expected a DIFAT sector and an image longer than the stream: {} DIFAT sectors, {} bytes", p.difat_sectors.len(), img.len())));
            }
            // where the blocks are, by the checker's own chain walk
            let id = p.find_id(&["big".to_string()]).ok_or_else(|| fail("mismatch|grow_beyond_4gib|entry|found|missing", "the checker does not find /big".into()))?;
            for &at in spots.iter() {
                let b = block(at);
                let mut got = Vec::new();
                for (off, n) in p.stream_extents(id, at, at + b.len() as u64) {
                    got.extend_from_slice(&img[off..off + n]);
                }
                if got != b {
                    return Err(fail("mismatch|grow_beyond_4gib|image_bytes|model_bytes|other_bytes", format!("the bytes written at stream offset {} are not where the FAT chain of /big puts them ({} of {} bytes found, first difference at {:?})", at, got.len(), b.len(), got.iter().zip(b.iter()).position(|(x, y)| x != y))));
                }
            }
        }
    }
    drop(img);
    steps += 1;
    // reopen in both modes and read back (blocks, zeros in between, the small stream)
    for strict in [false, true] {
        let mut peer = io.clone();
        peer.pos = 0;
        let opened = guard("open", || open_options(None, strict).open_with(peer)).map_err(|f| fail(&f.key, f.detail))?;
        let mut c = match opened {
            Ok(c) => c,
            Err(e) => return Err(fail(&format!("mismatch|open|grown_beyond_4gib|Ok|Err|{}", if strict { "strict" } else { "permissive" }), format!("open (strict={}) rejects the file the library wrote: {}", strict, e))),
        };
        let r = guard("big_reads", || -> Result<(), String> {
            let mut v = Vec::new();
            c.open_stream("/small").and_then(|mut s| s.read_to_end(&mut v)).map_err(|e| format!("small: {}", e))?;
            if v != small {
                return Err("the small stream changed".into());
            }
            let mut s = c.open_stream("/big").map_err(|e| format!("open_stream: {}", e))?;
            if s.len() != size {
                return Err(format!("Stream::len() = {}, expected {}", s.len(), size));
            }
            for &at in spots.iter() {
                let b = block(at);
                s.seek(SeekFrom::Start(at)).map_err(|e| format!("seek({}): {}", at, e))?;
                let mut buf = vec![0u8; b.len()];
                s.read_exact(&mut buf).map_err(|e| format!("read_exact at {}: {}", at, e))?;
                if buf != b {
                    return Err(format!("the block written at stream offset {} reads back differently (first difference at {:?})", at, buf.iter().zip(b.iter()).position(|(x, y)| x != y)));
                }
                // and zeros right behind it (gained by set_len)
                if at + (b.len() as u64) + 5000 < size {
                    let mut z = vec![1u8; 5000];
                    s.read_exact(&mut z).map_err(|e| format!("read_exact behind {}: {}", at, e))?;
                    if at != 0 && z.iter().any(|&x| x != 0) {
                        return Err(format!("bytes behind the block at {} are not zero", at));
                    }
                }
            }
            Ok(())
        })
        .map_err(|f| fail(&f.key, f.detail))?;
        if let Err(e) = r {
            return Err(fail(&format!("mismatch|read|grown_beyond_4gib|{}", if strict { "strict" } else { "permissive" }), e));
        }
        steps += 1;
    }
    Ok(steps)
}

/// C05: a reader that *claims* an enormous length (the bytes of a small valid file followed
/// by a formula) - byte strings far too long to hold in memory are byte strings too. Opening
/// (both modes) and reading must return Ok or Err, without panic, within the CPU limit of the
/// probe process and with a peak heap that does not scale with the claimed length.
/// `probe` = index into the list of (version, length) pairs; run alone in a child process.
pub fn huge_length_list() -> Vec<(u8, u64, &'static str)> {
    let mut v = Vec::new();
    for version in [3u8, 4u8] {
        let sl: u64 = if version == 3 { 512 } else { 4096 };
        let max_ok = (0xFFFF_FFFAu64 + 1) * sl + sl; // header + MAXREGSECT+1 sectors
        for (len, what) in [
            ((1u64 << 32) - sl, "just below 2^32"),
            (1u64 << 32, "2^32"),
            ((1u64 << 32) + sl + 7, "2^32 + one sector + 7"),
            (max_ok - sl, "one sector below the largest addressable file"),
            (max_ok, "largest addressable file"),
            (max_ok + sl, "one sector more than addressable"),
            (1u64 << 52, "2^52"),
            ((1u64 << 63) - 1, "2^63 - 1"),
            (1u64 << 63, "2^63"),
            (u64::MAX - (sl - 1), "2^64 - sector"),
            (u64::MAX, "2^64 - 1"),
        ] {
            v.push((version, len, what));
        }
    }
    v
}

pub fn huge_length_probe(index: usize) -> Result<String, Fail> {
    use std::io::{Read, Seek, SeekFrom};
    let list = huge_length_list();
    let (version, len, what) = *list.get(index).ok_or_else(|| Fail::new("harness|probe", "no such probe"))?;
    // a small valid file: a storage, a mini stream, a regular stream
    let mut m = Model::new();
    if let Kind::Storage { children, .. } = &mut m.root.kind {
        children.push(Node { name: "a".into(), state: 0, kind: Kind::Stream { data: pattern(1, 0, 100) } });
        children.push(Node { name: "bb".into(), state: 0, kind: Kind::Stream { data: pattern(2, 0, 5000) } });
    }
    let (img, _) = synthesize(&m, version, &[], 0);
    let prefix = std::sync::Arc::new(img);
    let base = crate::memtrack::begin();
    let mut outcomes = Vec::new();
    for strict in [false, true] {
        let io = SparseIo { prefix: prefix.clone(), len, pos: 0 };
        let opened = guard("open", || open_options(None, strict).open_with(io))?;
        match opened {
            Err(e) => outcomes.push(format!("{}: Err({})", if strict { "strict" } else { "permissive" }, e.kind())),
            Ok(mut c) => {
                let r = guard("read_script", || -> std::io::Result<usize> {
                    let mut n = 0usize;
                    let paths: Vec<std::path::PathBuf> = c.walk().filter(|e| e.is_stream()).map(|e| e.path().to_path_buf()).collect();
                    for p in paths {
                        let mut s = c.open_stream(&p)?;
                        let mut buf = Vec::new();
                        s.read_to_end(&mut buf)?;
                        n += buf.len();
                        let _ = s.seek(SeekFrom::End(0))?;
                        let _ = s.seek(SeekFrom::Start(u64::MAX));
                    }
                    let _ = c.entry("/a")?;
                    Ok(n)
                })?;
                outcomes.push(format!("{}: Ok, read {:?}", if strict { "strict" } else { "permissive" }, r.map_err(|e| e.kind())));
            }
        }
    }
    let peak = crate::memtrack::peak_since(base);
    if peak > 64 << 20 {
        return Err(Fail::new("memory|huge_length", format!("V{} file of claimed length {} ({}): peak heap {} bytes for a {}-byte valid prefix", version, len, what, peak, prefix.len())));
    }
    Ok(format!("V{} length {} ({}): {}; peak heap {} bytes", version, len, what, outcomes.join("; "), peak))
}

/// Runs every huge-length probe in its own child process (CPU and address-space limits).
pub fn huge_length_inputs() -> Result<Vec<String>, Violation> {
    use std::os::unix::process::CommandExt;
    use std::os::unix::process::ExitStatusExt;
    let mut done = Vec::new();
    for (i, (version, len, what)) in huge_length_list().into_iter().enumerate() {
        let label = format!("reader claiming {} bytes ({}), V{} prefix", len, what, version);
        let case = serde_json::json!({"scenario": "huge_length_inputs", "probe": i, "note": label});
        let mut cmd = std::process::Command::new(std::env::current_exe().unwrap());
        cmd.arg("probe").arg("huge-length").arg(i.to_string()).stdout(std::process::Stdio::piped()).stderr(std::process::Stdio::null());
        unsafe {
            cmd.pre_exec(|| {
                let cpu = libc::rlimit { rlim_cur: 60, rlim_max: 65 };
                libc::setrlimit(libc::RLIMIT_CPU, &cpu);
                let mem = libc::rlimit { rlim_cur: 6 << 30, rlim_max: 6 << 30 };
                libc::setrlimit(libc::RLIMIT_AS, &mem);
                Ok(())
            });
        }
        let out = match cmd.output() {
            Ok(o) => o,
            Err(e) => return Err(Violation { key: "harness|probe_spawn".into(), detail: e.to_string(), case, trace: vec![] }),
        };
        let text = String::from_utf8_lossy(&out.stdout).to_string();
        if let Some(sig) = out.status.signal() {
            let key = if sig == libc::SIGXCPU || sig == libc::SIGKILL { "hang|huge_length".to_string() } else { format!("abort|huge_length|signal {}", sig) };
            return Err(Violation { key, detail: format!("{}: the process was ended by signal {} (60 CPU-seconds / 6 GiB limits)", label, sig), case, trace: vec![] });
        }
        let mut ok = None;
        for line in text.lines() {
            if let Some(rest) = line.strip_prefix("PROBE-FAIL ") {
                let (k, d) = rest.split_once(" :: ").unwrap_or((rest, ""));
                return Err(Violation { key: k.to_string(), detail: format!("{}: {}", label, d), case, trace: vec![] });
            }
            if let Some(rest) = line.strip_prefix("PROBE-OK ") {
                ok = Some(rest.to_string());
            }
        }
        match ok {
            Some(s) => done.push(s),
            None => return Err(Violation { key: format!("abort|huge_length|exit {:?}", out.status.code()), detail: format!("{}: the process ended without a result (exit {:?}) - allocation failure or abort", label, out.status.code()), case, trace: vec![] }),
        }
    }
    Ok(done)
}

#![no_main]
// C11: input accepted by permissive open, then a mutation script; oracle inside the target.
use libfuzzer_sys::fuzz_target;
mod common;

fuzz_target!(|data: &[u8]| {
    common::init();
    let (img, tail) = common::split(data);
    let script = common::script(tail, true);
    let mut rep = cfbverif::runner::CaseReport::default();
    if let Err(f) = cfbverif::props::c11::mutate_check(img, &script, &mut rep) {
        let known = cfbverif::runner::Known::load();
        if known.lookup("C11", &f.key).is_none() {
            common::violation("C11", &f.key, &f.detail);
        }
    }
});

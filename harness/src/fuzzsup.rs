//! Decoding of libFuzzer inputs (image || script tail), shared by the fuzz targets and by
//! the harness when it turns a saved artifact into a replayable case.
use arbitrary::Unstructured;
use crate::blind::{BOp, HOp};
use crate::ops::DataSpec;

pub const TAIL: usize = 48;

pub fn split(data: &[u8]) -> (&[u8], &[u8]) {
    if data.len() <= TAIL {
        (data, &[])
    } else {
        data.split_at(data.len() - TAIL)
    }
}

fn hop(u: &mut Unstructured, mutating: bool) -> HOp {
    let k: u8 = u.arbitrary().unwrap_or(0);
    let a: u64 = u.arbitrary().unwrap_or(0);
    let ext_i = [0i64, 1, -1, 64, -64, i32::MAX as i64, i32::MIN as i64, i64::MAX, i64::MIN, i64::MIN + 1];
    let ext_u = [0u64, 1, 64, 4096, u32::MAX as u64, 1 << 32, i64::MAX as u64, u64::MAX];
    let sizes = [0u32, 1, 63, 64, 65, 1000, 1024, 4095, 4096, 4097, 9000];
    let n = if mutating { 17 } else { 10 };
    match k % n {
        0 => HOp::Read(sizes[a as usize % sizes.len()]),
        1 => HOp::ReadExact(sizes[a as usize % sizes.len()]),
        2 => HOp::FillConsume(a as u16),
        3 => HOp::ReadToEnd,
        4 => HOp::SeekStart(ext_u[a as usize % ext_u.len()]),
        5 => HOp::SeekEnd(ext_i[a as usize % ext_i.len()]),
        6 => HOp::SeekCur(ext_i[a as usize % ext_i.len()]),
        7 => HOp::SeekFrac(a as u16, (a >> 16) as i8 as i16),
        8 => HOp::Len,
        9 => HOp::Pos,
        10 | 11 => HOp::Write(DataSpec { len: sizes[a as usize % sizes.len()], seed: (a >> 8) as u8 }),
        12 => HOp::WriteAll(DataSpec { len: sizes[a as usize % sizes.len()], seed: (a >> 8) as u8 }),
        13 => HOp::SetLen([0u64, 1, 64, 4095, 4096, 4097, 10_000, 1 << 20][a as usize % 8]),
        14 | 15 => HOp::SetLenRel([-4097i32, -4096, -65, -64, -1, 1, 64, 65, 4096, 4097][a as usize % 10]),
        _ => HOp::Flush,
    }
}

pub fn script(tail: &[u8], mutating: bool) -> Vec<BOp> {
    let mut u = Unstructured::new(tail);
    let mut out = Vec::new();
    let n = 1 + u.arbitrary::<u8>().unwrap_or(0) % 6;
    for _ in 0..n {
        let k: u8 = u.arbitrary().unwrap_or(0);
        let sel: u16 = u.arbitrary().unwrap_or(0);
        let m = if mutating { 14 } else { 5 };
        let op = match k % m {
            0 => BOp::Walk,
            1 => BOp::QueryAll,
            2 | 3 => {
                let hn = 1 + u.arbitrary::<u8>().unwrap_or(0) % 5;
                BOp::Stream { sel, script: (0..hn).map(|_| hop(&mut u, mutating)).collect() }
            }
            4 => {
                let hn = 1 + u.arbitrary::<u8>().unwrap_or(0) % 4;
                BOp::AllStreams { script: (0..hn).map(|_| hop(&mut u, mutating)).collect() }
            }
            5 | 6 => BOp::CreateStream { parent: sel, name: k / 14, data: DataSpec { len: [0u32, 1, 64, 1000, 4095, 4096, 4097, 9000][sel as usize % 8], seed: k } },
            7 => BOp::CreateStorage { parent: sel, name: k / 14 },
            8 | 9 => BOp::RemoveStream { sel },
            10 => BOp::RemoveStorage { sel },
            11 => BOp::RemoveStorageAll { sel },
            12 => BOp::SetState { sel, bits: sel as u32 * 65537 },
            _ => BOp::Flush,
        };
        out.push(op);
    }
    out
}

pub fn init() {
    static INIT: std::sync::Once = std::sync::Once::new();
    // libfuzzer-sys installs an aborting panic hook at start-up; the oracle needs
    // catch_unwind, so the harness hook replaces it (violations abort explicitly).
    INIT.call_once(crate::util::install_panic_hook);
}

pub fn violation(prop: &str, key: &str, detail: &str) -> ! {
    eprintln!("FUZZ-VIOLATION property={} key={} :: {}", prop, key, detail);
    std::process::abort();
}

// ---------------------------------------------------------------------------------------
// fz_hist: coverage-guided search over operation histories; the bytes are decoded by
// fuzzdec.rs (fixed-size records, one per operation) under the op weights of the property.

/// Which oracle set the target applies (environment variable VERIF_FZ_PROP, default C02).
pub fn hist_prop() -> String {
    std::env::var("VERIF_FZ_PROP").unwrap_or_else(|_| "C02".to_string())
}

/// Decodes fuzz bytes into a history for `prop`.
pub fn hist_case(prop: &str, data: &[u8]) -> Option<crate::ops::Case> {
    let (profile, foreign) = crate::props::hist::fuzz_profile(prop);
    crate::fuzzdec::case(data, &profile, foreign)
}

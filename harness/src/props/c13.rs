//! C13 - write failures are reported, not swallowed; a successful flush means durable.

use crate::backend::FaultDomain;
use crate::fault::*;
use crate::gen::*;
use crate::ops::*;
use crate::runner::*;
use crate::util::*;
use proptest::collection::vec;
use proptest::prelude::*;
use serde::{Deserialize, Serialize};
use serde_json::Value;

#[derive(Clone, Debug, Serialize, Deserialize)]
pub struct C13Case {
    pub version: u8,
    pub max_buf: Option<u32>,
    pub script: Vec<WOp>,
}

fn wop_strategy() -> BoxedStrategy<WOp> {
    let slot = 0u8..2;
    let name = 0u8..8;
    let d = || {
        prop_oneof![
            4 => proptest::sample::select(vec![1u32, 10, 64, 100, 500, 1000, 1023, 1024, 1025, 1500, 3000, 4096, 4097, 5000]),
            1 => 0u32..6000,
        ]
        .prop_flat_map(|len| any::<u8>().prop_map(move |seed| DataSpec { len, seed }))
    };
    prop_oneof![
        2 => name.clone().prop_map(|name| WOp::CreateStorage { name }),
        1 => name.clone().prop_map(|name| WOp::RemoveStorage { name }),
        5 => (slot.clone(), name.clone()).prop_map(|(slot, name)| WOp::CreateStream { slot, name }),
        2 => (slot.clone(), name.clone()).prop_map(|(slot, name)| WOp::OpenStream { slot, name }),
        8 => (slot.clone(), d()).prop_map(|(slot, data)| WOp::Write { slot, data }),
        5 => (slot.clone(), d()).prop_map(|(slot, data)| WOp::WriteAll { slot, data }),
        4 => (slot.clone(), any::<u16>()).prop_map(|(slot, frac)| WOp::SeekStart { slot, frac }),
        2 => slot.clone().prop_map(|slot| WOp::SeekEnd { slot }),
        2 => (slot.clone(), len_spec(6000)).prop_map(|(slot, len)| WOp::SetLen { slot, len }),
        6 => slot.clone().prop_map(|slot| WOp::Flush { slot }),
        2 => (slot.clone(), 0u32..3000).prop_map(|(slot, n)| WOp::Read { slot, n }),
        2 => slot.clone().prop_map(|slot| WOp::Close { slot }),
        2 => name.clone().prop_map(|name| WOp::RemoveStream { name }),
        1 => (name, any::<u32>()).prop_map(|(name, bits)| WOp::SetState { name, bits }),
        1 => Just(WOp::CfbFlush),
        2 => Just(WOp::Walk),
        1 => (0u8..8).prop_map(|name| WOp::RemoveAll { name }),
    ]
    .boxed()
}

/// Composite pieces that put a handle into the states single ops rarely reach: dirty window
/// in the middle of a longer stream followed by a read that has to write it back, etc.
fn piece_strategy() -> BoxedStrategy<Vec<WOp>> {
    let slot = 0u8..2;
    let small = || (proptest::sample::select(vec![1u32, 10, 100, 500, 1000]), any::<u8>()).prop_map(|(len, seed)| DataSpec { len, seed });
    let large = || (proptest::sample::select(vec![1500u32, 3000, 4096, 5000]), any::<u8>()).prop_map(|(len, seed)| DataSpec { len, seed });
    prop_oneof![
        12 => wop_strategy().prop_map(|o| vec![o]),
        // long content, flush, overwrite near the start, read across the window end
        2 => (slot.clone(), 0u8..3, large(), small(), any::<u16>(), 100u32..3000).prop_map(|(slot, name, big, sm, frac, n)| vec![
            WOp::CreateStream { slot, name },
            WOp::WriteAll { slot, data: big },
            WOp::Flush { slot },
            WOp::SeekStart { slot, frac: frac / 8 },
            WOp::Write { slot, data: sm },
            WOp::Read { slot, n },
            WOp::Flush { slot },
        ]),
        // write, shrink within the last sector, grow again (the gained range must read zero
        // even if the growing call fails half-way)
        2 => (slot.clone(), 0u8..3, prop_oneof![small(), large()], proptest::sample::select(vec![1i32, 10, 63, 64, 100, 400]), proptest::sample::select(vec![1i32, 50, 64, 100, 500, 4000])).prop_map(|(slot, name, data, down, up)| vec![
            WOp::CreateStream { slot, name },
            WOp::WriteAll { slot, data },
            WOp::SetLen { slot, len: LenSpec::Rel(-down) },
            WOp::SetLen { slot, len: LenSpec::Rel(up) },
            WOp::Flush { slot },
        ]),
        // a flushed large stream is removed (sectors released), two others are written into
        // the released space and flushed, then everything flushed: what the first flush made
        // durable must still be there after the second stream was written
        2 => (0u8..3, large(), large(), large()).prop_map(|(name, a, b, c)| vec![
            WOp::CreateStream { slot: 0, name },
            WOp::WriteAll { slot: 0, data: a },
            WOp::Flush { slot: 0 },
            WOp::Close { slot: 0 },
            WOp::RemoveStream { name },
            WOp::CreateStream { slot: 0, name: (name + 1) % 3 },
            WOp::WriteAll { slot: 0, data: b },
            WOp::Flush { slot: 0 },
            WOp::CreateStream { slot: 1, name: (name + 2) % 3 },
            WOp::WriteAll { slot: 1, data: c },
            WOp::Flush { slot: 1 },
            WOp::CfbFlush,
        ]),
        // mini streams: freed mini sectors are reused out of order (chains that run backwards
        // through the mini stream), such a chain is released again, and new ones are allocated
        1 => (0u8..3, small(), small(), prop_oneof![small(), large()], small()).prop_map(|(n, a, b, c, d)| vec![
            WOp::CreateStream { slot: 0, name: n },
            WOp::WriteAll { slot: 0, data: a },
            WOp::Flush { slot: 0 },
            WOp::CreateStream { slot: 1, name: (n + 1) % 3 },
            WOp::WriteAll { slot: 1, data: b },
            WOp::Flush { slot: 1 },
            WOp::Close { slot: 0 },
            WOp::Close { slot: 1 },
            WOp::RemoveStream { name: n },
            WOp::CreateStream { slot: 0, name: (n + 2) % 3 },
            WOp::WriteAll { slot: 0, data: c },
            WOp::Flush { slot: 0 },
            WOp::Close { slot: 0 },
            WOp::RemoveStream { name: (n + 2) % 3 },
            WOp::CreateStream { slot: 0, name: n },
            WOp::WriteAll { slot: 0, data: d },
            WOp::Flush { slot: 0 },
            WOp::CfbFlush,
        ]),
        // one stream grown past 64 KiB: in a version-3 file the first FAT sector (128 entries)
        // fills up and a second one is appended in the middle of a write-back
        1 => (slot.clone(), 0u8..3, proptest::sample::select(vec![30_000u32, 40_000, 61_000]), proptest::sample::select(vec![6_000u32, 30_000, 36_000]), any::<u8>()).prop_map(|(slot, name, a, b, seed)| vec![
            WOp::CreateStream { slot, name },
            WOp::WriteAll { slot, data: DataSpec { len: a, seed } },
            WOp::WriteAll { slot, data: DataSpec { len: b, seed: seed.wrapping_add(1) } },
            WOp::Flush { slot },
            WOp::Close { slot },
            WOp::CfbFlush,
        ]),
        // a flushed stream above the cutoff is cut to an exact boundary (the 4096-byte cutoff itself,
        // one below, whole sectors, whole mini sectors): what lies below the new length stays readable
        // whichever underlying call of the shrink fails
        1 => (slot.clone(), 0u8..3, proptest::sample::select(vec![4097u32, 5000, 8192, 9000, 12_288]), proptest::sample::select(vec![4096u32, 4096, 4095, 4032, 4608, 8192, 512, 64]), any::<u8>()).prop_map(|(slot, name, a, t, seed)| vec![
            WOp::CreateStream { slot, name },
            WOp::WriteAll { slot, data: DataSpec { len: a, seed } },
            WOp::Flush { slot },
            WOp::SetLen { slot, len: LenSpec::Abs(t) },
            WOp::Flush { slot },
            WOp::Close { slot },
            WOp::CfbFlush,
        ]),
        // overwrite + seek elsewhere (window move writes back) + flush
        1 => (slot.clone(), small(), any::<u16>()).prop_map(|(slot, sm, frac)| vec![
            WOp::SeekStart { slot, frac: 0 },
            WOp::Write { slot, data: sm },
            WOp::SeekStart { slot, frac },
            WOp::Read { slot, n: 10 },
            WOp::Flush { slot },
        ]),
    ]
    .boxed()
}

fn strategy(tier: Tier) -> BoxedStrategy<C13Case> {
    let n = if tier == Tier::Thorough { 24 } else { 18 };
    (proptest::sample::select(vec![3u8, 4]), proptest::sample::select(vec![Some(1024u32), Some(1024), Some(4096), None]), vec(piece_strategy(), 4..=n))
        .prop_map(|(version, max_buf, pieces)| C13Case { version, max_buf, script: pieces.into_iter().flatten().take(28).collect() })
        .boxed()
}

fn report(c: &C13Case) -> CaseReport {
    let mut rep = CaseReport { evaluations: 0, ..CaseReport::default() };
    let case_hash = fnv64(serde_json::to_string(c).unwrap_or_default().as_bytes());
    let ctl = new_ctl(FaultDomain::WriteSide);
    let mut trace = Vec::new();
    let base = match run_write_script(c.version, c.max_buf, &c.script, &ctl, &mut trace) {
        Ok(s) => s,
        Err(f) => {
            rep.fail = Some(Fail::new(f.key.replace("write_fault|", "no_fault|"), format!("fault-free run: {}", f.detail)));
            rep.trace = trace;
            return rep;
        }
    };
    rep.evaluations += 1;
    let n = base.n_calls;
    // every position for workloads up to 1000 underlying calls; longer ones are strided
    // (stride and offset are a function of the case) so that one case stays cheap
    let stride = (n / 1000).max(1);
    let offset = if stride > 1 { case_hash % stride } else { 0 };
    rep.classes.push(if stride == 1 { "all_positions".into() } else { "strided_positions".into() });
    // besides the strided positions: the first three and the last two underlying calls of
    // every API call (the boundaries where a call has done nothing yet / almost everything)
    let mut positions: std::collections::BTreeSet<u64> = (offset..n).step_by(stride as usize).collect();
    if stride > 1 {
        let mut starts = base.op_starts.clone();
        starts.push(n);
        for w in starts.windows(2) {
            for k in [w[0], w[0] + 1, w[0] + 2, w[1].saturating_sub(1), w[1].saturating_sub(2)] {
                if k >= w[0] && k < w[1] {
                    positions.insert(k);
                }
            }
        }
    }
    for k in positions.into_iter() {
        if let Some((f, trace)) = fault_run(c, k, n, case_hash, &mut rep) {
            rep.fail = Some(f);
            rep.trace = trace;
            return rep;
        }
    }
    rep.classes.push(format!("max_buf_{:?}", c.max_buf));
    rep
}

/// One execution of the workload with underlying write-side call `k` failing.
fn fault_run(c: &C13Case, k: u64, n: u64, case_hash: u64, rep: &mut CaseReport) -> Option<(Fail, Vec<String>)> {
    let ctl = new_ctl(FaultDomain::WriteSide);
    {
        let mut g = ctl.lock().unwrap();
        g.fault_at = vec![k];
        g.fault_kind = KINDS[(k as usize + case_hash as usize % 97) % KINDS.len()];
        g.fault_side_effects = (k + (case_hash >> 16)) % 2 == 1;
        g.faults_enabled = true;
    }
    let mut trace = vec![format!("fault at write-side call {} of {} ({:?}, side effects {})", k, n, KINDS[(k as usize + case_hash as usize % 97) % KINDS.len()], (k + (case_hash >> 16)) % 2 == 1)];
    rep.evaluations += 1;
    match run_write_script(c.version, c.max_buf, &c.script, &ctl, &mut trace) {
        Ok(s) => {
            if s.fault_in_writeback && s.flush_ok_after_writeback_fault {
                rep.nontrivial_items.push(case_hash ^ (k + 1).wrapping_mul(0x9E37_79B9_7F4A_7C15));
            }
            for pr in s.reopen_problems.iter() {
                let c = format!("after_flush_ok_raw_image_unreadable:{}", pr);
                if !rep.classes.iter().any(|x| x == &c) {
                    rep.classes.push(c);
                }
            }
            for (k, v) in [("raw_reopen_not_judged_after_failed_namespace_call", s.reopen_skipped_after_failed_namespace_call), ("durable_content_rechecked_later", s.durable_checks), ("durable_content_unreadable_later", s.durable_unreadable)] {
                if v > 0 && !rep.classes.iter().any(|x| x == k) {
                    rep.classes.push(k.into());
                }
            }
            if s.fault_in_drop && !rep.classes.iter().any(|x| x == "fault_in_drop_exempt") {
                rep.classes.push("fault_in_drop_exempt".into());
            }
            None
        }
        Err(mut f) => {
            f.detail = format!("[fault at {} of {} underlying write/seek/flush calls] {}", k, n, f.detail);
            Some((f, trace))
        }
    }
}

/// Scenario step: a version-3 file is grown to just below the capacity of 109 FAT sectors
/// (the last one the header's DIFAT array can name); the following writes append the 110th
/// FAT sector together with the first DIFAT sector, and - 128 sectors later each - the 111th
/// and 112th FAT sector. Every underlying write-side call of those writes fails in turn (the
/// growth to 7 MB itself is not enumerated); after the retry the history continues across
/// the next FAT-sector boundaries, so state left behind by the failed call meets the next
/// table growth. Same oracle as the generated workloads.
/// Runs `c` once without faults (recording which write-side calls are the library's own and
/// which of them write into the header sector), then once per selected position from the
/// start of op `first_enumerated_op` on: all of them when `dense`, otherwise those within 25
/// library calls of a header write plus every 40th. Returns the number of executions.
fn scenario_fault_runs(what: &str, tag: &str, c: &C13Case, first_enumerated_op: usize, dense: bool) -> Result<(u64, u64), Violation> {
    let mut rep = CaseReport { evaluations: 0, ..CaseReport::default() };
    let positions_total;
    {
        let case_hash = fnv64(serde_json::to_string(c).unwrap_or_default().as_bytes());
        let ctl = new_ctl(FaultDomain::WriteSide);
        {
            // faults "enabled" with no position set: the backend records where a fault could fire
            let mut g = ctl.lock().unwrap();
            g.faults_enabled = true;
            g.record_live = true;
        }
        let mut trace = Vec::new();
        let base = match run_write_script(c.version, c.max_buf, &c.script, &ctl, &mut trace) {
            Ok(s) => s,
            Err(f) => return Err(Violation { key: f.key.replace("write_fault|", "no_fault|"), detail: format!("[{}] fault-free run: {}", what, f.detail), case: serde_json::json!({"scenario": what}), trace }),
        };
        let n = base.n_calls;
        let (live, header_writes) = {
            let g = ctl.lock().unwrap();
            (g.live_seqs.clone(), g.header_write_seqs.clone())
        };
        let from = base.op_starts.get(first_enumerated_op).copied().unwrap_or(0);
        let live: Vec<u64> = live.into_iter().filter(|&k| k >= from).collect();
        let header_writes: Vec<u64> = header_writes.into_iter().filter(|&k| k >= from).collect();
        // the library's own calls only (the harness's read-backs seek too). Quick tier: every
        // call within 25 library calls of a header write (a table grows or moves: FAT sector
        // count, first DIFAT sector, DIFAT sector count) and every 40th elsewhere; thorough: all
        let mut positions: std::collections::BTreeSet<u64> = Default::default();
        for (i, &k) in live.iter().enumerate() {
            let near = {
                // 25 library calls either side
                let lo = i.saturating_sub(25);
                let hi = (i + 25).min(live.len() - 1);
                header_writes.iter().any(|&h| h >= live[lo] && h <= live[hi])
            };
            if dense || near || i % 40 == 0 {
                positions.insert(k);
            }
        }
        if std::env::var("VERIF_DEBUG_C13").is_ok() {
            eprintln!("base run: {} calls, {} by the library from op {}, header writes at {:?}, {} positions", n, live.len(), first_enumerated_op, header_writes, positions.len());
        }
        positions_total = positions.len() as u64;
        let cap = env_u64("VERIF_C13_DIFAT_MAXPOS", u64::MAX) as usize;
        let positions: Vec<u64> = positions.into_iter().take(cap).collect();
        // the executions are independent of each other: spread over threads, lowest failing position wins
        let nthreads = env_u64("VERIF_WORKERS", 16).clamp(1, 16) as usize;
        let results: Vec<(u64, Option<(u64, Fail, Vec<String>)>)> = std::thread::scope(|sc| {
            let hs: Vec<_> = (0..nthreads)
                .map(|t| {
                    let (c, positions) = (c, &positions);
                    sc.spawn(move || {
                        crate::lockwatch::install();
                        let mut rep = CaseReport { evaluations: 0, ..CaseReport::default() };
                        let mut first = None;
                        for (i, &k) in positions.iter().enumerate() {
                            if i % nthreads != t {
                                continue;
                            }
                            if let Some((f, trace)) = fault_run(c, k, n, case_hash, &mut rep) {
                                first = Some((k, f, trace));
                                break;
                            }
                        }
                        (rep.evaluations, first)
                    })
                })
                .collect();
            hs.into_iter().map(|h| h.join().unwrap_or((0, None))).collect()
        });
        let mut worst: Option<(u64, Fail, Vec<String>)> = None;
        for (evals, first) in results {
            rep.evaluations += evals;
            if let Some(x) = first {
                if worst.as_ref().map(|w| x.0 < w.0).unwrap_or(true) {
                    worst = Some(x);
                }
            }
        }
        if let Some((_, f, trace)) = worst {
            return Err(Violation { key: format!("{}|{}", f.key, tag), detail: format!("[{}] {}", what, f.detail), case: serde_json::json!({"scenario": what}), trace });
        }
    }
    Ok((rep.evaluations + 1, positions_total))
}

fn difat_boundary_faults(ctx: &Ctx, ev: &mut Value) -> Option<Violation> {
    let chunk = |seed: u8| WOp::WriteAll { slot: 0, data: DataSpec { len: 60_000, seed } };
    let script = vec![
        WOp::CreateStream { slot: 0, name: 0 },
        WOp::WriteAll { slot: 0, data: DataSpec { len: 3000, seed: 1 } },
        WOp::Flush { slot: 0 },
        WOp::SetLen { slot: 0, len: LenSpec::Abs(7_020_000) },
        WOp::SeekEnd { slot: 0 },
        chunk(2),
        WOp::Flush { slot: 0 },
        chunk(3),
        WOp::Flush { slot: 0 },
        chunk(4),
        chunk(5),
        WOp::Flush { slot: 0 },
        WOp::Close { slot: 0 },
        WOp::CfbFlush,
    ];
    let first_enumerated_op = 4;
    let mut total = 0u64;
    let mut positions_total = 0u64;
    for max_buf in [Some(4096u32), None] {
        let c = C13Case { version: 3, max_buf, script: script.clone() };
        let what = format!("V3 file grown across the 110th-112th FAT sector (first DIFAT sector) with a write-side fault at every underlying call of the crossing writes, max_buf {:?}", max_buf);
        match scenario_fault_runs(&what, "difat_boundary", &c, first_enumerated_op, ctx.tier == Tier::Thorough) {
            Ok((e, p)) => {
                total += e;
                positions_total += p;
            }
            Err(v) => return Some(v),
        }
    }
    ev["coverage"]["difat_boundary_fault_runs"] = serde_json::json!({"executions": total, "fault_positions": positions_total});
    // directory growth: in version 4 the header counts the directory sectors; the 33rd and the
    // 65th entry (root included) each need a new directory sector. 70 small streams are
    // created; every library write-side call of the creations around both boundaries fails in
    // turn (all positions: the file is small), then the history goes on. Version 3 likewise
    // (a new directory sector every 4 entries; the header field stays 0).
    let mut dir_total = 0u64;
    let mut dir_pos = 0u64;
    for version in [4u8, 3u8] {
        let mut script = Vec::new();
        for i in 0..70u8 {
            script.push(WOp::CreateStream { slot: 0, name: 8 + i });
            script.push(WOp::WriteAll { slot: 0, data: DataSpec { len: if i % 9 == 0 { 4200 } else { 90 }, seed: i } });
            script.push(WOp::Close { slot: 0 });
            if i % 16 == 15 {
                script.push(WOp::CfbFlush);
            }
        }
        script.push(WOp::Walk);
        script.push(WOp::CfbFlush);
        let c = C13Case { version, max_buf: None, script };
        let what = format!("V{} file: 70 streams created one after the other (directory grows across the 33rd and 65th entry) with a write-side fault at the library's calls", version);
        // two windows: creations 29..35 and 61..67 (ops are 3 per creation plus a flush every 16)
        for (lo, tagw) in [(29usize, "a"), (61usize, "b")] {
            let first_op = lo * 3 + lo / 16;
            let mut cw = c.clone();
            // the window ends 6 creations later: cut the script there plus a tail of 3 creations, walk and flush
            let keep = (lo + 9) * 3 + (lo + 9) / 16;
            cw.script.truncate(keep.min(cw.script.len()));
            cw.script.push(WOp::Walk);
            cw.script.push(WOp::CfbFlush);
            match scenario_fault_runs(&format!("{} (window {})", what, tagw), "dir_growth", &cw, first_op, true) {
                Ok((e, p)) => {
                    dir_total += e;
                    dir_pos += p;
                }
                Err(v) => return Some(v),
            }
        }
    }
    ev["coverage"]["dir_growth_fault_runs"] = serde_json::json!({"executions": dir_total, "fault_positions": dir_pos});
    total += dir_total;
    if let Some(e) = ev["coverage"]["evaluations"].as_u64() {
        ev["coverage"]["evaluations"] = serde_json::json!(e + total);
    }
    None
}

fn worker(ctx: &Ctx) -> WorkerResult {
    run_worker(ctx, strategy(ctx.tier), report)
}

fn solo(v: &Value) -> Result<CaseReport, String> {
    run_solo(v, report)
}

pub fn def() -> PropDef {
    PropDef {
        id: "C13",
        level: "fault_enumeration",
        rule: "mutating workload of 5-22 calls on a fresh file (create/remove storages and streams in a fixed 8-name namespace, write/write_all in chunks around the buffer capacity through up to 2 handles, seek, set_len, read, flush, close, set_state_bits, CompoundFile::flush; buffer sizes 1024/4096/default, both versions); the fault-free run counts N underlying write+seek+flush calls, then one run per k in [0,N) with call k failing (workloads with N > 1000: a stride of N/1000 plus the first three and last two underlying calls of every API call; ten error kinds in rotation, with and without side effects of the failing call); after an Err the call is retried once. Oracle: (a) the API call during which the fault fired returns Err (Drop exempt, as documented); (b) nothing panics and the worker's CPU budget holds; (c) whenever Stream::flush or CompoundFile::flush returns Ok the underlying writer was flushed, and after Stream::flush a fresh handle reads back every byte accepted by earlier write calls on that handle at its offset (read-back Err is also a violation); the raw bytes reopened show them too if they open (not judged once a fault has fired inside a create/remove call: the directory in the file may then still link an entry that is gone in memory); the bytes a successful flush made durable are read again after every later CompoundFile::flush and at the end - unless a call touched that stream - and must be unchanged (a read error is tolerated); ranges gained by set_len read as zero. Scenario step (same oracle): a version-3 stream is grown to just below the capacity of 109 FAT sectors and then written across the 110th-112th FAT sector (first DIFAT sector); one execution per library write-side call within 25 calls of a header update and every 40th elsewhere (thorough: every call), each with retry and continued growth; and 70 streams created one after the other in a version-4 and a version-3 file with a fault at every library write-side call of the creations around the 33rd and the 65th directory entry (new directory sector, header count in V4). evaluations = executions; a non-trivial item = an execution where the fault hit a call on a handle holding accepted-but-unflushed bytes and a later flush on that handle returned Ok; distinct = distinct (case, k).",
        assumptions: &["single faults are enumerated exhaustively per workload; workloads are sampled", "offsets truncated (or possibly truncated by a failed set_len) are dropped from the expectation"],
        quick_cases: 12,
        thorough_cases: 200,
        worker,
        solo,
        hang_cpu_s: 300.0,
        extra: Some(difat_boundary_faults),
        confirm_known: false,
    }
}

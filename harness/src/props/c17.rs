//! C17 - metadata set through the API is returned exactly and survives reopening.

use crate::engine::{Oracles, Stats};
use crate::gen::*;
use crate::ops::*;
use crate::props::hist::history_report;
use crate::runner::*;
use proptest::collection::vec;
use proptest::prelude::*;
use serde_json::Value;

fn oracles() -> Oracles {
    Oracles { dump_every: 5, final_reopen: true, reopen_check: false, ..Oracles::default() }
}

fn op_strategy() -> BoxedStrategy<Op> {
    let any_obj = || target_path(PickKind::AnyOrRoot, 1, 1);
    prop_oneof![
        6 => new_path(0).prop_map(|p| Op::CreateStorage { p }),
        4 => (new_path(0), data_strategy(200)).prop_map(|(p, data)| Op::CreateStream { p, data }),
        2 => target_path(PickKind::Any, 1, 0).prop_map(|p| Op::RemoveStorageAll { p }),
        1 => target_path(PickKind::Stream, 1, 0).prop_map(|p| Op::RemoveStream { p }),
        5 => (any_obj(), state_strategy()).prop_map(|(p, bits)| Op::SetStateBits { p, bits }),
        5 => (any_obj(), clsid_strategy()).prop_map(|(p, clsid)| Op::SetClsid { p, clsid }),
        6 => (any_obj(), time_strategy()).prop_map(|(p, t)| Op::SetCreated { p, t }),
        6 => (any_obj(), time_strategy()).prop_map(|(p, t)| Op::SetModified { p, t }),
        2 => any_obj().prop_map(|p| Op::Touch { p }),
        4 => any_obj().prop_map(|p| Op::Entry { p }),
        2 => target_path(PickKind::StorageOrRoot, 1, 1).prop_map(|p| Op::List { p }),
        1 => Just(Op::Walk),
        1 => Just(Op::RootEntry),
        3 => any::<bool>().prop_map(|strict| Op::Reopen { strict }),
    ]
    .boxed()
}

fn strategy(tier: Tier) -> BoxedStrategy<Case> {
    let n = if tier == Tier::Thorough { 150 } else { 60 };
    // a prefix that fills several directory sectors (V3: 4 entries/sector, V4: 32)
    let prefix_n = prop_oneof![2 => 0usize..6, 2 => 6usize..40];
    (proptest::sample::select(vec![3u8, 4]), pool_strategy(NameProfile::Plain, 6, 14), prefix_n, vec(op_strategy(), 3..=n))
        .prop_map(|(version, mut pool, prefix_n, ops)| {
            let mut all = Vec::new();
            for i in 0..prefix_n {
                pool.push(format!("fill{:02}", i));
                let p = PathSpec::Raw(format!("/fill{:02}", i));
                if i % 3 == 0 {
                    all.push(Op::CreateStorage { p });
                } else {
                    all.push(Op::CreateStream { p, data: DataSpec { len: (i as u32 * 37) % 300, seed: i as u8 } });
                }
            }
            all.extend(ops);
            Case { version, max_buf: None, start: Start::Fresh, pool, ops: all }
        })
        .boxed()
}

/// A fifth of the histories start on a foreign-layout file whose unallocated directory
/// entries still hold the CLSID, state bits, times and size of an earlier object (accepted
/// by both open modes): objects created in those slots must report fresh metadata.
fn strategy_with_stale_slots(tier: Tier) -> BoxedStrategy<Case> {
    (strategy(tier), proptest::option::weighted(0.2, (any::<u64>(), any::<u16>())))
        .prop_map(|(mut c, st)| {
            if let Some((seed, sel)) = st {
                // the synthesized tree takes its names from the pool; keep the prefix ops out
                c.ops.retain(|o| !matches!(o, Op::CreateStorage { p: PathSpec::Raw(_) } | Op::CreateStream { p: PathSpec::Raw(_), .. }));
                c.start = Start::Deviant { seed, devs: vec![((crate::props::c16::ALL_DEVS.len() + 1) as u8, sel)] };
            }
            c
        })
        .boxed()
}

fn nontrivial(s: &Stats, c: &Case) -> bool {
    // an extreme or sub-100ns time was set (successfully) and the history has enough
    // entries for a second directory sector
    let entries = c.ops.iter().filter(|o| matches!(o, Op::CreateStorage { .. } | Op::CreateStream { .. })).count();
    let per = if c.version == 3 { 4 } else { 32 };
    let extreme = c.ops.iter().any(|o| match o {
        Op::SetCreated { t, .. } | Op::SetModified { t, .. } => t.nanos % 100 != 0 || t.neg || t.secs > 4_102_444_800,
        _ => false,
    });
    s.has("time_set") && extreme && entries >= per
}

fn report(c: &Case) -> CaseReport {
    history_report(c, oracles(), nontrivial)
}

fn worker(ctx: &Ctx) -> WorkerResult {
    run_worker(ctx, strategy_with_stale_slots(ctx.tier), report)
}

fn solo(v: &Value) -> Result<CaseReport, String> {
    run_solo(v, report)
}

fn fault_retry(_ctx: &Ctx, ev: &mut Value) -> Option<Violation> {
    match crate::props::scenarios::metadata_retry_after_fault() {
        Ok((plans, fired)) => {
            ev["coverage"]["setter_fault_plans"] = serde_json::json!(plans);
            ev["coverage"]["setter_fault_plans_with_fault_and_retry"] = serde_json::json!(fired);
            None
        }
        Err(v) => Some(v),
    }
}

pub fn def() -> PropDef {
    PropDef {
        id: "C17",
        level: "exploration",
        rule: "histories dominated by set_state_bits (any u32), set_storage_clsid (any 128 bits, also on streams -> InvalidInput), set_created_time/set_modified_time with UNIX_EPOCH +/- (secs, nanos) from extreme and random values, touch, on storages, streams, the root and missing paths, after a prefix that fills 0-40 directory entries (several directory sectors), with reopen (strict/permissive) at random steps; a fifth of the histories start on a synthesized foreign file whose unallocated directory entries hold stale CLSID/state/time/size bytes; entry(), read_storage and walk results are compared with an exact integer FILETIME model (saturating, nanos/100 truncated), new-storage and touch times with the clock interval around the call; dump every 5 ops and after the final reopen in both modes. Non-trivial = a time before 1970, after 2100 or with a sub-100ns fraction was set successfully in a history with enough entries for a second directory sector; distinct = distinct case JSON.",
        assumptions: &["touch on the root: documentation ('no effect') and code disagree, either outcome accepted", "SystemTime on this platform represents the whole FILETIME range"],
        quick_cases: 2500,
        thorough_cases: 30000,
        worker,
        solo,
        hang_cpu_s: 30.0,
        extra: Some(fault_retry),
        confirm_known: false,
    }
}

//! Deterministic scheduler over the lock observer hook (C14).  Threads are real, but each
//! runs only while it holds the token; scheduling points are the lock events.  The lock
//! is modelled with writer preference (what std's futex RwLock does on Linux): a read
//! request waits while a writer holds or waits.  The real lock is entered only when the
//! model grants it, so it is never contended and a run is a function of the schedule bytes.

use crate::util::AbortSentinel;
use cfb::verif_hooks::{Event, EventKind};
use std::cell::Cell;
use std::sync::{Condvar, Mutex};

#[derive(Clone, Copy, Debug, PartialEq, Eq)]
pub enum Status {
    NotStarted,
    Runnable,
    BlockedRead,
    BlockedWrite,
    Finished,
}

#[derive(Default)]
pub struct State {
    pub active: bool,
    pub status: Vec<Status>,
    pub current: Option<usize>,
    /// model of the lock
    pub readers: Vec<usize>,
    pub writer: Option<usize>,
    pub waiting_writers: Vec<usize>,
    pub depth_read: Vec<u32>,
    pub depth_write: Vec<u32>,
    pub schedule: Vec<u8>,
    pub sched_pos: usize,
    pub abort: bool,
    pub deadlock: Option<String>,
    /// (thread, kind, location) of requests made while already holding a guard
    pub reentrant: Vec<(usize, String, String)>,
    /// run only this thread while it is runnable (deadlock construction)
    pub force: Option<usize>,
    pub points: u64,
    pub write_request_while_reader_held: bool,
    pub log: Vec<String>,
}

pub struct Sched {
    pub st: Mutex<State>,
    pub cv: Condvar,
}

pub static SCHED: Sched = Sched { st: Mutex::new(State { active: false, status: Vec::new(), current: None, readers: Vec::new(), writer: None, waiting_writers: Vec::new(), depth_read: Vec::new(), depth_write: Vec::new(), schedule: Vec::new(), sched_pos: 0, abort: false, deadlock: None, reentrant: Vec::new(), force: None, points: 0, write_request_while_reader_held: false, log: Vec::new() }), cv: Condvar::new() };

thread_local! {
    pub static TID: Cell<Option<usize>> = Cell::new(None);
}

fn lock() -> std::sync::MutexGuard<'static, State> {
    SCHED.st.lock().unwrap_or_else(|e| e.into_inner())
}

pub fn reset(nthreads: usize, schedule: Vec<u8>) {
    let mut s = lock();
    *s = State::default();
    s.active = true;
    s.status = vec![Status::NotStarted; nthreads];
    s.depth_read = vec![0; nthreads];
    s.depth_write = vec![0; nthreads];
    s.schedule = schedule;
    s.current = Some(0);
}

pub fn deactivate() {
    let mut s = lock();
    s.active = false;
    s.abort = true;
    drop(s);
    SCHED.cv.notify_all();
}

pub fn snapshot_result() -> (Option<String>, Vec<(usize, String, String)>, u64, bool, Vec<String>) {
    let s = lock();
    (s.deadlock.clone(), s.reentrant.clone(), s.points, s.write_request_while_reader_held, s.log.clone())
}

fn read_grantable(s: &State) -> bool {
    s.writer.is_none() && s.waiting_writers.is_empty()
}

fn write_grantable(s: &State, _tid: usize) -> bool {
    s.writer.is_none() && s.readers.is_empty()
}

/// Chooses the next thread to run among the runnable ones.
fn choose(s: &mut State) -> Option<usize> {
    let runnable: Vec<usize> = (0..s.status.len()).filter(|&i| s.status[i] == Status::Runnable).collect();
    if runnable.is_empty() {
        return None;
    }
    if let Some(f) = s.force {
        if runnable.contains(&f) {
            return Some(f);
        }
        s.force = None;
    }
    let b = if s.schedule.is_empty() {
        0
    } else {
        let v = s.schedule[s.sched_pos % s.schedule.len()];
        let pass = (s.sched_pos / s.schedule.len()) as u8;
        s.sched_pos += 1;
        v.wrapping_add(pass.wrapping_mul(101))
    };
    Some(runnable[(b as usize * runnable.len()) >> 8])
}

/// Re-evaluates blocked threads after the lock model changed.
fn wake_blocked(s: &mut State) {
    for i in 0..s.status.len() {
        match s.status[i] {
            Status::BlockedWrite => {
                // the longest-waiting writer goes first
                if s.waiting_writers.first() == Some(&i) && write_grantable(s, i) {
                    s.status[i] = Status::Runnable;
                }
            }
            Status::BlockedRead => {
                if read_grantable(s) {
                    s.status[i] = Status::Runnable;
                }
            }
            _ => {}
        }
    }
}

fn describe(s: &State) -> String {
    format!("threads {:?}; lock model: readers {:?}, writer {:?}, waiting writers {:?}", s.status, s.readers, s.writer, s.waiting_writers)
}

/// Hands the token on. Returns when this thread holds the token again and is runnable.
/// Panics with the abort sentinel when the run is aborted (deadlock found).
fn pass_and_wait(mut s: std::sync::MutexGuard<'static, State>, tid: usize) -> std::sync::MutexGuard<'static, State> {
    match choose(&mut s) {
        Some(n) => {
            s.current = Some(n);
        }
        None => {
            let unfinished = s.status.iter().any(|st| matches!(st, Status::BlockedRead | Status::BlockedWrite));
            if unfinished {
                s.deadlock = Some(describe(&s));
                s.abort = true;
            }
            s.current = None;
        }
    }
    SCHED.cv.notify_all();
    loop {
        if s.abort {
            drop(s);
            std::panic::panic_any(AbortSentinel);
        }
        if s.current == Some(tid) && s.status[tid] == Status::Runnable {
            return s;
        }
        s = SCHED.cv.wait(s).unwrap_or_else(|e| e.into_inner());
    }
}

/// Called by a managed thread before it runs its script.
pub fn enter(tid: usize) {
    TID.with(|t| t.set(Some(tid)));
    let mut s = lock();
    s.status[tid] = Status::Runnable;
    SCHED.cv.notify_all();
    // wait until every thread has started and the token is here
    loop {
        if s.abort {
            drop(s);
            std::panic::panic_any(AbortSentinel);
        }
        let all_started = s.status.iter().all(|st| *st != Status::NotStarted);
        if all_started && s.current == Some(tid) {
            return;
        }
        s = SCHED.cv.wait(s).unwrap_or_else(|e| e.into_inner());
    }
}

/// Called by a managed thread when its script is over (also on unwinding).
pub fn finish(tid: usize) {
    TID.with(|t| t.set(None));
    let mut s = lock();
    if !s.active {
        return;
    }
    s.status[tid] = Status::Finished;
    // anything it still holds in the model is released
    s.readers.retain(|&r| r != tid);
    if s.writer == Some(tid) {
        s.writer = None;
    }
    s.waiting_writers.retain(|&r| r != tid);
    wake_blocked(&mut s);
    if s.abort {
        SCHED.cv.notify_all();
        return;
    }
    if s.current == Some(tid) || s.current.is_none() {
        match choose(&mut s) {
            Some(n) => s.current = Some(n),
            None => {
                if s.status.iter().any(|st| matches!(st, Status::BlockedRead | Status::BlockedWrite)) {
                    s.deadlock = Some(describe(&s));
                    s.abort = true;
                }
                s.current = None;
            }
        }
    }
    SCHED.cv.notify_all();
}

/// A plain scheduling point (no lock event): lets the scheduler switch threads.
pub fn yield_now() {
    let tid = match TID.with(|t| t.get()) {
        Some(t) => t,
        None => return,
    };
    let s = lock();
    if !s.active || s.abort {
        return;
    }
    let _s = pass_and_wait(s, tid);
}

/// The observer installed into the library.
pub fn observer(ev: &Event) {
    let tid = match TID.with(|t| t.get()) {
        Some(t) => t,
        None => return,
    };
    let mut s = lock();
    if !s.active {
        return;
    }
    if s.abort {
        // unwinding: releases are just bookkeeping, requests must not proceed
        match ev.kind {
            EventKind::BeforeRead | EventKind::BeforeWrite => {
                drop(s);
                std::panic::panic_any(AbortSentinel);
            }
            _ => return,
        }
    }
    s.points += 1;
    let loc = format!("{}:{}", ev.caller.file().rsplit("/repo/").next().unwrap_or(ev.caller.file()), ev.caller.line());
    match ev.kind {
        EventKind::BeforeRead => {
            if s.depth_read[tid] + s.depth_write[tid] > 0 {
                let held = if s.depth_write[tid] > 0 { "write" } else { "read" };
                s.reentrant.push((tid, format!("read while holding {}", held), loc.clone()));
                // construct the deadlock: let the I/O thread run to its next write request
                s.force = Some(0);
                if s.depth_write[tid] > 0 {
                    // read under own write guard: certain self-deadlock
                    s.deadlock = Some(format!("thread {} requests a read guard at {} while holding the write guard", tid, loc));
                    s.abort = true;
                    SCHED.cv.notify_all();
                    drop(s);
                    std::panic::panic_any(AbortSentinel);
                }
            }
            // scheduling point before the request is evaluated
            s = pass_and_wait(s, tid);
            loop {
                if read_grantable(&s) {
                    s.readers.push(tid);
                    s.depth_read[tid] += 1;
                    if s.log.len() < 400 {
                        s.log.push(format!("t{} read-acquire {}", tid, loc));
                    }
                    return;
                }
                s.status[tid] = Status::BlockedRead;
                if s.log.len() < 400 {
                    let d = describe(&s);
                    s.log.push(format!("t{} BLOCKED on read {} ({})", tid, loc, d));
                }
                s = pass_and_wait(s, tid);
            }
        }
        EventKind::BeforeWrite => {
            if s.depth_read[tid] + s.depth_write[tid] > 0 {
                s.reentrant.push((tid, "write while holding a guard".into(), loc.clone()));
                s.deadlock = Some(format!("thread {} requests the write guard at {} while holding a guard itself", tid, loc));
                s.abort = true;
                SCHED.cv.notify_all();
                drop(s);
                std::panic::panic_any(AbortSentinel);
            }
            if !s.readers.is_empty() {
                s.write_request_while_reader_held = true;
            }
            s = pass_and_wait(s, tid);
            loop {
                if s.waiting_writers.first().map(|&w| w == tid).unwrap_or(true) && write_grantable(&s, tid) {
                    s.waiting_writers.retain(|&w| w != tid);
                    s.writer = Some(tid);
                    s.depth_write[tid] += 1;
                    if s.log.len() < 400 {
                        s.log.push(format!("t{} write-acquire {}", tid, loc));
                    }
                    return;
                }
                if !s.waiting_writers.contains(&tid) {
                    s.waiting_writers.push(tid);
                }
                if !s.readers.is_empty() {
                    s.write_request_while_reader_held = true;
                }
                s.status[tid] = Status::BlockedWrite;
                if s.log.len() < 400 {
                    let d = describe(&s);
                    s.log.push(format!("t{} BLOCKED on write {} ({})", tid, loc, d));
                }
                s = pass_and_wait(s, tid);
            }
        }
        EventKind::AfterRead | EventKind::AfterWrite => {
            // scheduling point while the guard is held: lets a writer start waiting now
            let _s = pass_and_wait(s, tid);
        }
        EventKind::ReleaseRead => {
            if let Some(p) = s.readers.iter().position(|&r| r == tid) {
                s.readers.remove(p);
            }
            s.depth_read[tid] = s.depth_read[tid].saturating_sub(1);
            wake_blocked(&mut s);
            if std::thread::panicking() {
                return;
            }
            let _s = pass_and_wait(s, tid);
        }
        EventKind::ReleaseWrite => {
            if s.writer == Some(tid) {
                s.writer = None;
            }
            s.depth_write[tid] = s.depth_write[tid].saturating_sub(1);
            wake_blocked(&mut s);
            if std::thread::panicking() {
                return;
            }
            let _s = pass_and_wait(s, tid);
        }
    }
}

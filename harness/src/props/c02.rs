//! C02 - write-through persistence: the byte image always reopens to the same state.

use crate::engine::{Oracles, Stats};
use crate::gen::{case_strategy, Profile};
use crate::ops::*;
use crate::props::hist::history_report;
use crate::runner::*;
use proptest::prelude::*;
use serde_json::Value;

pub fn oracles() -> Oracles {
    Oracles { reopen_check: true, reopen_replace_every: 4, track_tables: true, measure_shapes: false, ..Oracles::default() }
}

pub fn profile(tier: Tier) -> Profile {
    let mut p = Profile::c01();
    p.create = 40;
    p.remove = 12;
    p.query = 6;
    p.content = 22;
    p.meta = 6;
    p.reopen = 2;
    p.handles = 25;
    p.bad = 1;
    p.fancy = 1;
    p.max_size = 9000;
    p.max_ops = if tier == Tier::Thorough { 120 } else { 50 };
    p.max_bufs = vec![None, Some(1024), Some(4096)];
    p
}

fn nontrivial(s: &Stats, _c: &Case) -> bool {
    s.has("mutation_after_replace_after_table_change")
}

fn report(c: &Case) -> CaseReport {
    history_report(c, oracles(), nontrivial)
}

fn worker(ctx: &Ctx) -> WorkerResult {
    run_worker(ctx, case_strategy(&profile(ctx.tier), crate::synth::AVAILABLE), report)
}

fn solo(v: &Value) -> Result<CaseReport, String> {
    run_solo(v, report)
}

pub fn def() -> PropDef {
    PropDef {
        id: "C02",
        level: "exploration",
        rule: "histories (namespace, content, metadata and stream-handle ops, buffer sizes default/1024/4096, both versions); at every op boundary where no handle holds unflushed bytes the raw backend bytes (no flush, no into_inner) are opened in permissive and strict mode and their full dump compared with the model; every 4th clean boundary after a mutation the reopened object replaces the live one (alternating strict/permissive) and the history continues on it. Non-trivial = a replacement happened after an op that changed a header counter or the file length, and at least one more mutation ran on the reopened object; distinct = distinct case JSON.",
        assumptions: &["'possibly dirty' is tracked by the harness: from a write through a handle until its next successful flush, length-changing set_len or close", "abstract model as in C01"],
        quick_cases: 1500,
        thorough_cases: 20000,
        worker,
        solo,
        hang_cpu_s: 30.0,
        extra: None,
        confirm_known: false,
    }
}

//! proptest strategies for names, pools, path specs, operations and whole cases.
//! All randomness comes from proptest so that cases shrink and replay.

use crate::names::alphabet;
use crate::ops::*;
use proptest::collection::vec;
use proptest::prelude::*;
use proptest::sample::select;

pub const SIZES: &[u32] = &[
    0, 1, 2, 63, 64, 65, 127, 128, 129, 191, 192, 255, 256, 511, 512, 513, 1023, 1024, 1025, 1535, 1536, 2047, 2048,
    2049, 4031, 4032, 4033, 4095, 4096, 4097, 4159, 4160, 4607, 4608, 4609, 5000, 8191, 8192, 8193, 12288,
];

pub fn size_strategy(max: u32) -> BoxedStrategy<u32> {
    let pool: Vec<u32> = SIZES.iter().copied().filter(|&s| s <= max).collect();
    prop_oneof![
        6 => select(pool),
        2 => 0u32..=max.min(300),
        2 => 0u32..=max,
    ]
    .boxed()
}

pub fn data_strategy(max: u32) -> BoxedStrategy<DataSpec> {
    (size_strategy(max), any::<u8>()).prop_map(|(len, seed)| DataSpec { len, seed }).boxed()
}

#[derive(Clone, Copy, Debug, PartialEq, Eq)]
pub enum NameProfile {
    /// mostly ASCII, a few non-ASCII
    Plain,
    /// the whole closed alphabet (C09, C04)
    Unicode,
    /// ASCII only
    Ascii,
}

fn char_strategy(p: NameProfile) -> BoxedStrategy<char> {
    let a = alphabet();
    match p {
        NameProfile::Ascii => prop_oneof![8 => select(a.ascii_letters), 2 => select(a.ascii_other)].boxed(),
        NameProfile::Plain => prop_oneof![
            12 => select(a.ascii_letters),
            3 => select(a.ascii_other),
            2 => select(a.cased_bmp),
            1 => select(a.exceptional),
            1 => select(a.caseless_bmp),
            1 => select(a.supplementary),
        ]
        .boxed(),
        NameProfile::Unicode => prop_oneof![
            6 => select(a.ascii_letters),
            2 => select(a.ascii_other),
            6 => select(a.cased_bmp),
            4 => select(a.exceptional),
            3 => select(a.caseless_bmp),
            3 => select(a.supplementary),
        ]
        .boxed(),
    }
}

/// A valid name (1..=31 units, not "." or "..").
pub fn valid_name(p: NameProfile) -> BoxedStrategy<String> {
    if p != NameProfile::Ascii {
        // one name in 25 is long and made of wide characters: up to 31 UTF-16 units but
        // 60-93 UTF-8 bytes (the 64-byte name field counts UTF-16 code units, not bytes)
        let wide = (proptest::sample::select(vec!['\u{3042}', '\u{4E00}', '\u{AC00}', '\u{0416}', '\u{00E9}']), proptest::sample::select(vec!['\u{30A2}', '\u{9FA5}', 'x', '\u{044F}']), 20usize..=31, any::<u8>())
            .prop_map(|(a, b, n, k)| (0..n).map(|i| if (i as u8).wrapping_mul(k | 1) % 5 == 0 { b } else { a }).collect::<String>());
        return prop_oneof![24 => valid_name_mixed(p), 1 => wide].boxed();
    }
    valid_name_mixed(p)
}

fn valid_name_mixed(p: NameProfile) -> BoxedStrategy<String> {
    let len = prop_oneof![6 => 1usize..=4, 3 => 5usize..=12, 1 => 13usize..=29, 2 => 30usize..=31];
    (len, vec(char_strategy(p), 31))
        .prop_map(|(len, chars)| {
            let mut s = String::new();
            let mut units = 0;
            for c in chars {
                let l = c.len_utf16();
                if units + l > len {
                    continue;
                }
                s.push(c);
                units += l;
                if units == len {
                    break;
                }
            }
            if s.is_empty() || s == "." || s == ".." {
                s = "n".to_string();
            }
            s
        })
        .boxed()
}

/// How a pool entry is derived (keeps collisions and near-collisions common).
#[derive(Clone, Debug)]
enum PoolEntry {
    Fresh(String),
    /// case variant of an earlier entry
    Variant(u16, u32, u8),
    /// same as an earlier entry with the last character replaced
    TweakLast(u16, char),
    /// same as an earlier entry with the first character replaced
    TweakFirst(u16, char),
}

pub fn pool_strategy(p: NameProfile, min: usize, max: usize) -> BoxedStrategy<Vec<String>> {
    let entry = prop_oneof![
        5 => valid_name(p).prop_map(PoolEntry::Fresh),
        2 => (any::<u16>(), any::<u32>(), any::<u8>()).prop_map(|(i, m, k)| PoolEntry::Variant(i, m | 1, k)),
        2 => (any::<u16>(), char_strategy(p)).prop_map(|(i, c)| PoolEntry::TweakLast(i, c)),
        1 => (any::<u16>(), char_strategy(p)).prop_map(|(i, c)| PoolEntry::TweakFirst(i, c)),
    ];
    vec(entry, min..=max)
        .prop_map(|entries| {
            let mut pool: Vec<String> = Vec::new();
            for e in entries {
                let s = match e {
                    PoolEntry::Fresh(s) => s,
                    PoolEntry::Variant(i, m, k) if !pool.is_empty() => crate::names::case_variant(&pool[pick(i, pool.len())], m, k),
                    PoolEntry::TweakLast(i, c) if !pool.is_empty() => {
                        let base = &pool[pick(i, pool.len())];
                        let mut cs: Vec<char> = base.chars().collect();
                        let old = cs.pop().unwrap();
                        if old.len_utf16() == c.len_utf16() {
                            cs.push(c);
                        } else {
                            cs.push(old);
                        }
                        cs.into_iter().collect()
                    }
                    PoolEntry::TweakFirst(i, c) if !pool.is_empty() => {
                        let base = &pool[pick(i, pool.len())];
                        let mut cs: Vec<char> = base.chars().collect();
                        if cs[0].len_utf16() == c.len_utf16() {
                            cs[0] = c;
                        }
                        cs.into_iter().collect()
                    }
                    _ => "first".to_string(),
                };
                let s = if s == "." || s == ".." { "dots".to_string() } else { s };
                pool.push(s);
            }
            pool
        })
        .boxed()
}

pub fn spell_strategy(fancy: u32) -> BoxedStrategy<Spell> {
    // fancy = weight (out of 10) of non-canonical spellings
    prop_oneof![
        (10 - fancy.min(10)) => Just(Spell::default()),
        fancy.max(1) => (0u8..4, any::<bool>(), proptest::option::weighted(0.3, any::<u8>()), proptest::option::weighted(0.3, (any::<u8>(), any::<u16>())), prop_oneof![2 => Just(0u32), 3 => any::<u32>()], any::<u8>())
            .prop_map(|(lead, trail, dot, detour, case_mask, case_pick)| Spell { lead, trail, dot, detour, case_mask, case_pick }),
    ]
    .boxed()
}

pub fn pick_path(kind: PickKind, fancy: u32) -> BoxedStrategy<PathSpec> {
    (any::<u16>(), spell_strategy(fancy)).prop_map(move |(idx, spell)| PathSpec::Pick { kind, idx, spell }).boxed()
}

pub fn new_path(fancy: u32) -> BoxedStrategy<PathSpec> {
    (any::<u16>(), any::<u16>(), spell_strategy(fancy)).prop_map(|(parent, name, spell)| PathSpec::New { parent, name, spell }).boxed()
}

pub fn bad_path() -> BoxedStrategy<PathSpec> {
    let kind = select(vec![BadKind::MissingParent, BadKind::UnderStream, BadKind::Escape, BadKind::NonUtf8, BadKind::InvalidName, BadKind::Missing]);
    (kind, any::<u16>(), any::<u16>()).prop_map(|(kind, base, name)| PathSpec::Bad { kind, base, name }).boxed()
}

/// A path for an op that wants an existing object of `kind`; `bad` (0..=10) is the share
/// of wrong-kind / missing / malformed paths.
pub fn target_path(kind: PickKind, bad: u32, fancy: u32) -> BoxedStrategy<PathSpec> {
    prop_oneof![
        (20 - 2 * bad.min(10)).max(1) => pick_path(kind, fancy),
        bad.max(1) => pick_path(PickKind::AnyOrRoot, fancy),
        bad.max(1) => bad_path(),
    ]
    .boxed()
}

pub fn create_path(bad: u32, fancy: u32) -> BoxedStrategy<PathSpec> {
    prop_oneof![
        (20 - 2 * bad.min(10)).max(1) => new_path(fancy),
        bad.max(1) => pick_path(PickKind::AnyOrRoot, fancy),
        bad.max(1) => bad_path(),
    ]
    .boxed()
}

pub fn time_strategy() -> BoxedStrategy<TimeSpec> {
    let secs = prop_oneof![
        4 => select(vec![0u64, 1, 59, 86_400, 11_644_473_599, 11_644_473_600, 11_644_473_601, 1_700_000_000, 4_102_444_800, 1_833_029_933_770, 1_833_029_933_771, 1_844_674_407_370, 1_844_674_407_371, 1u64 << 40, (1u64 << 62) - 1]),
        2 => 0u64..4_000_000_000u64,
        1 => 0u64..(1u64 << 62),
    ];
    let nanos = prop_oneof![3 => select(vec![0u32, 1, 99, 100, 101, 199, 999_999_900, 999_999_999]), 1 => 0u32..1_000_000_000];
    (any::<bool>(), secs, nanos).prop_map(|(neg, secs, nanos)| TimeSpec { neg, secs, nanos }).boxed()
}

pub fn clsid_strategy() -> BoxedStrategy<[u8; 16]> {
    prop_oneof![
        1 => Just([0u8; 16]),
        1 => Just([0xffu8; 16]),
        2 => Just([0, 1, 2, 3, 4, 5, 6, 7, 8, 9, 10, 11, 12, 13, 14, 15]),
        4 => any::<[u8; 16]>(),
    ]
    .boxed()
}

pub fn state_strategy() -> BoxedStrategy<u32> {
    prop_oneof![2 => select(vec![0u32, 1, 0x8000_0000, 0xffff_ffff, 0xdead_beef]), 2 => any::<u32>()].boxed()
}

pub fn len_spec(max: u32) -> BoxedStrategy<LenSpec> {
    prop_oneof![
        4 => size_strategy(max).prop_map(LenSpec::Abs),
        3 => select(vec![-4097i32, -4096, -513, -512, -65, -64, -63, -1, 1, 63, 64, 65, 108, 500, 512, 513, 4095, 4096, 4097]).prop_map(LenSpec::Rel),
        1 => (-300i32..300).prop_map(LenSpec::Rel),
    ]
    .boxed()
}

pub fn seek_strategy() -> BoxedStrategy<SeekSpec> {
    let delta = prop_oneof![3 => Just(0i16), 2 => select(vec![-1i16, 1, -64, 64, -512, 512, -1024, 1024, -1025, 1025]), 1 => -2000i16..2000];
    let extremes_u = select(vec![0u64, 1, u32::MAX as u64, 1 << 32, 1 << 62, i64::MAX as u64, (i64::MAX as u64) + 1, u64::MAX - 1, u64::MAX]);
    let extremes_i = select(vec![0i64, 1, -1, i32::MIN as i64, i32::MAX as i64, -(1i64 << 32), 1i64 << 32, i64::MIN, i64::MIN + 1, i64::MAX, i64::MAX - 1]);
    prop_oneof![
        5 => (any::<u16>(), delta.clone()).prop_map(|(frac, delta)| SeekSpec::Start { frac, delta }),
        3 => (any::<u16>(), delta.clone()).prop_map(|(frac, delta)| SeekSpec::End { frac, delta }),
        3 => (any::<u16>(), delta).prop_map(|(frac, delta)| SeekSpec::Cur { frac, delta }),
        1 => extremes_u.prop_map(SeekSpec::StartRaw),
        1 => extremes_i.clone().prop_map(SeekSpec::EndRaw),
        1 => extremes_i.prop_map(SeekSpec::CurRaw),
    ]
    .boxed()
}

/// Weights of the op families.
#[derive(Clone, Debug)]
pub struct Profile {
    pub create: u32,
    pub remove: u32,
    pub query: u32,
    pub content: u32,
    pub meta: u32,
    pub reopen: u32,
    pub handles: u32,
    /// share (0..=10) of wrong/malformed paths
    pub bad: u32,
    /// share (0..=10) of non-canonical spellings
    pub fancy: u32,
    pub max_size: u32,
    pub names: NameProfile,
    pub pool_min: usize,
    pub pool_max: usize,
    pub min_ops: usize,
    pub max_ops: usize,
    pub max_bufs: Vec<Option<u32>>,
}

impl Profile {
    pub fn c01() -> Profile {
        Profile {
            create: 35,
            remove: 20,
            query: 25,
            content: 12,
            meta: 8,
            reopen: 4,
            handles: 0,
            bad: 2,
            fancy: 2,
            max_size: 12288,
            names: NameProfile::Plain,
            pool_min: 4,
            pool_max: 12,
            min_ops: 1,
            max_ops: 60,
            max_bufs: vec![None, None, Some(1024)],
        }
    }
}

pub fn handle_op(max_size: u32, bad: u32, fancy: u32) -> BoxedStrategy<Op> {
    let slot = 0u8..3;
    let n = prop_oneof![3 => size_strategy(max_size), 2 => select(vec![0u32, 1, 10, 100, 1000, 1023, 1024, 1025, 3000, 4096, 5000])];
    prop_oneof![
        4 => (slot.clone(), target_path(PickKind::Stream, bad, fancy)).prop_map(|(slot, p)| Op::HOpen { slot, p }),
        2 => (slot.clone(), create_path(bad, fancy)).prop_map(|(slot, p)| Op::HCreate { slot, p }),
        5 => (slot.clone(), n.clone()).prop_map(|(slot, n)| Op::HRead { slot, n }),
        2 => (slot.clone(), n.clone()).prop_map(|(slot, n)| Op::HReadExact { slot, n }),
        3 => (slot.clone(), any::<u16>()).prop_map(|(slot, frac)| Op::HFillConsume { slot, frac }),
        5 => (slot.clone(), data_strategy(max_size)).prop_map(|(slot, data)| Op::HWrite { slot, data }),
        3 => (slot.clone(), data_strategy(max_size)).prop_map(|(slot, data)| Op::HWriteAll { slot, data }),
        6 => (slot.clone(), seek_strategy()).prop_map(|(slot, s)| Op::HSeek { slot, s }),
        3 => (slot.clone(), len_spec(max_size)).prop_map(|(slot, len)| Op::HSetLen { slot, len }),
        3 => slot.clone().prop_map(|slot| Op::HFlush { slot }),
        1 => slot.clone().prop_map(|slot| Op::HLen { slot }),
        1 => slot.clone().prop_map(|slot| Op::HPos { slot }),
        1 => slot.clone().prop_map(|slot| Op::HReadToEnd { slot }),
        2 => (slot.clone(), data_strategy(max_size), any::<u16>(), any::<u16>()).prop_map(|(slot, data, a, b)| Op::HWriteV { slot, data, a, b }),
        1 => (slot.clone(), n.clone(), n.clone()).prop_map(|(slot, n1, n2)| Op::HReadV { slot, n1, n2 }),
        1 => (slot.clone(), any::<u8>()).prop_map(|(slot, byte)| Op::HReadUntil { slot, byte }),
        1 => slot.clone().prop_map(|slot| Op::HRewind { slot }),
        2 => slot.prop_map(|slot| Op::HClose { slot }),
    ]
    .boxed()
}

pub fn op_strategy(p: &Profile) -> BoxedStrategy<Op> {
    let (bad, fancy, ms) = (p.bad, p.fancy, p.max_size);
    let create = prop_oneof![
        4 => create_path(bad, fancy).prop_map(|p| Op::CreateStorage { p }),
        1 => create_path(bad, fancy).prop_map(|p| Op::CreateStorageAll { p }),
        1 => (any::<u16>(), any::<u16>(), any::<u16>()).prop_map(|(b, n1, n2)| Op::CreateStorageAll { p: PathSpec::Bad { kind: BadKind::MissingParent, base: b, name: n1 ^ n2 } }),
        6 => (create_path(bad, fancy), data_strategy(ms)).prop_map(|(p, data)| Op::CreateStream { p, data }),
        2 => (create_path(bad, fancy), data_strategy(ms)).prop_map(|(p, data)| Op::CreateNewStream { p, data }),
    ];
    let remove = prop_oneof![
        4 => target_path(PickKind::Stream, bad, fancy).prop_map(|p| Op::RemoveStream { p }),
        3 => target_path(PickKind::Storage, bad, fancy).prop_map(|p| Op::RemoveStorage { p }),
        1 => target_path(PickKind::StorageOrRoot, bad, fancy).prop_map(|p| Op::RemoveStorageAll { p }),
    ];
    let query = prop_oneof![
        3 => target_path(PickKind::StorageOrRoot, bad, fancy).prop_map(|p| Op::List { p }),
        1 => Just(Op::ListRoot),
        2 => Just(Op::Walk),
        2 => target_path(PickKind::StorageOrRoot, bad, fancy).prop_map(|p| Op::WalkStorage { p }),
        2 => target_path(PickKind::Any, bad + 2, fancy).prop_map(|p| Op::Exists { p }),
        1 => target_path(PickKind::Any, bad + 2, fancy).prop_map(|p| Op::IsStream { p }),
        1 => target_path(PickKind::Any, bad + 2, fancy).prop_map(|p| Op::IsStorage { p }),
        3 => target_path(PickKind::AnyOrRoot, bad, fancy).prop_map(|p| Op::Entry { p }),
        1 => Just(Op::RootEntry),
        4 => target_path(PickKind::Stream, bad, fancy).prop_map(|p| Op::ReadAll { p }),
    ];
    let content = prop_oneof![
        3 => (target_path(PickKind::Stream, bad, fancy), any::<u16>(), data_strategy(ms)).prop_map(|(p, frac, data)| Op::Overwrite { p, frac, data }),
        4 => (target_path(PickKind::Stream, bad, fancy), len_spec(ms)).prop_map(|(p, len)| Op::SetLen { p, len }),
    ];
    let meta = prop_oneof![
        2 => (target_path(PickKind::StorageOrRoot, bad, fancy), clsid_strategy()).prop_map(|(p, clsid)| Op::SetClsid { p, clsid }),
        2 => (target_path(PickKind::AnyOrRoot, bad, fancy), state_strategy()).prop_map(|(p, bits)| Op::SetStateBits { p, bits }),
        1 => (target_path(PickKind::AnyOrRoot, bad, fancy), time_strategy()).prop_map(|(p, t)| Op::SetCreated { p, t }),
        1 => (target_path(PickKind::AnyOrRoot, bad, fancy), time_strategy()).prop_map(|(p, t)| Op::SetModified { p, t }),
        1 => target_path(PickKind::AnyOrRoot, bad, fancy).prop_map(|p| Op::Touch { p }),
    ];
    let reopen = prop_oneof![3 => any::<bool>().prop_map(|strict| Op::Reopen { strict }), 1 => Just(Op::Flush)];
    let mut alts: Vec<(u32, BoxedStrategy<Op>)> = vec![
        (p.create, create.boxed()),
        (p.remove, remove.boxed()),
        (p.query, query.boxed()),
        (p.content, content.boxed()),
        (p.meta, meta.boxed()),
        (p.reopen, reopen.boxed()),
        (p.handles, handle_op(ms, bad, fancy)),
    ];
    alts.retain(|(w, _)| *w > 0);
    proptest::strategy::Union::new_weighted(alts).boxed()
}

pub fn case_strategy(p: &Profile, start_foreign: bool) -> BoxedStrategy<Case> {
    let version = select(vec![3u8, 4u8]);
    let max_buf = select(p.max_bufs.clone());
    let start = if start_foreign { prop_oneof![3 => Just(Start::Fresh), 1 => any::<u64>().prop_map(|seed| Start::Foreign { seed })].boxed() } else { Just(Start::Fresh).boxed() };
    (version, max_buf, start, pool_strategy(p.names, p.pool_min, p.pool_max), vec(op_strategy(p), p.min_ops..=p.max_ops))
        .prop_map(|(version, max_buf, start, pool, ops)| Case { version, max_buf, start, pool, ops })
        .boxed()
}

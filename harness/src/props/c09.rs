//! C09 - names are validated, case-insensitive, and paths are normalised consistently.

use crate::engine::{Oracles, Stats};
use crate::gen::*;
use crate::names::order_decided_by_casing;
use crate::ops::*;
use crate::run::run_case;
use crate::runner::*;
use proptest::collection::vec;
use proptest::prelude::*;
use serde_json::Value;

pub fn oracles() -> Oracles {
    Oracles { dump_every: 2, final_reopen: true, bytes_on_refusal: true, ..Oracles::default() }
}

fn op_strategy() -> BoxedStrategy<Op> {
    let fancy = 6;
    prop_oneof![
        6 => create_path(2, fancy).prop_map(|p| Op::CreateStorage { p }),
        8 => (create_path(2, fancy), data_strategy(300)).prop_map(|(p, data)| Op::CreateStream { p, data }),
        3 => (create_path(2, fancy), data_strategy(300)).prop_map(|(p, data)| Op::CreateNewStream { p, data }),
        1 => create_path(2, fancy).prop_map(|p| Op::CreateStorageAll { p }),
        5 => target_path(PickKind::Stream, 1, fancy).prop_map(|p| Op::RemoveStream { p }),
        3 => target_path(PickKind::Storage, 1, fancy).prop_map(|p| Op::RemoveStorage { p }),
        4 => target_path(PickKind::StorageOrRoot, 1, fancy).prop_map(|p| Op::List { p }),
        2 => Just(Op::Walk),
        4 => target_path(PickKind::Any, 2, fancy).prop_map(|p| Op::Entry { p }),
        3 => target_path(PickKind::Any, 2, fancy).prop_map(|p| Op::Exists { p }),
        2 => target_path(PickKind::Any, 2, fancy).prop_map(|p| Op::IsStream { p }),
        2 => target_path(PickKind::Any, 2, fancy).prop_map(|p| Op::IsStorage { p }),
        4 => target_path(PickKind::Stream, 1, fancy).prop_map(|p| Op::ReadAll { p }),
        1 => any::<bool>().prop_map(|strict| Op::Reopen { strict }),
        // explicit invalid names with non-ASCII content
        3 => (any::<u16>(), any::<u16>()).prop_map(|(base, name)| Op::CreateStream { p: PathSpec::Bad { kind: BadKind::InvalidName, base, name }, data: DataSpec { len: 3, seed: 1 } }),
        2 => (any::<u16>(), any::<u16>()).prop_map(|(base, name)| Op::CreateStorage { p: PathSpec::Bad { kind: BadKind::InvalidName, base, name } }),
        1 => (any::<u16>(), any::<u16>()).prop_map(|(base, name)| Op::CreateStorage { p: PathSpec::Bad { kind: BadKind::Escape, base, name } }),
    ]
    .boxed()
}

pub fn strategy(tier: Tier) -> BoxedStrategy<Case> {
    let n = if tier == Tier::Thorough { 120 } else { 50 };
    (proptest::sample::select(vec![3u8, 4]), pool_strategy(NameProfile::Unicode, 2, 12), vec(op_strategy(), 3..=n))
        .prop_map(|(version, pool, ops)| Case { version, max_buf: None, start: Start::Fresh, pool, ops })
        .boxed()
}

pub fn report(c: &Case) -> CaseReport {
    let out = run_case(c, oracles(), None);
    let s = &out.stats;
    let mut classes: Vec<String> = s.classes.keys().filter(|k| !k.starts_with("refused:") || k.contains("invalid")).cloned().collect();
    // properties of the pool (the sibling sets are drawn from it)
    let non_ascii = c.pool.iter().any(|n| !n.is_ascii());
    let mut casing_pair = false;
    for a in c.pool.iter() {
        for b in c.pool.iter() {
            if a != b && order_decided_by_casing(a, b) {
                casing_pair = true;
            }
        }
    }
    let supp = c.pool.iter().any(|n| n.chars().any(|ch| ch as u32 > 0xFFFF));
    if non_ascii {
        classes.push("pool_non_ascii".into());
    }
    if casing_pair {
        classes.push("pool_order_decided_by_casing".into());
    }
    if supp {
        classes.push("pool_supplementary".into());
    }
    let removed = s.has("removal_zero_or_one_child") || s.has("removal_two_children") || c.ops.iter().any(|o| matches!(o, Op::RemoveStream { .. } | Op::RemoveStorage { .. }));
    let nt = out.result.is_ok() && non_ascii && casing_pair && removed;
    CaseReport { fail: out.result.err(), nontrivial: nt, classes, excluded: s.excluded, evaluations: 1, nontrivial_items: vec![], trace: out.trace }
}

fn worker(ctx: &Ctx) -> WorkerResult {
    run_worker(ctx, strategy(ctx.tier), report)
}

fn solo(v: &Value) -> Result<CaseReport, String> {
    run_solo(v, report)
}

/// "each stays findable after every insertion and removal" for sibling sets created in
/// monotone order (lookup depth = number of siblings).
fn deep_chains(_ctx: &Ctx, ev: &mut Value) -> Option<Violation> {
    match crate::props::scenarios::monotone_siblings() {
        Ok(n) => {
            ev["coverage"]["monotone_sibling_histories"] = serde_json::json!(n);
            None
        }
        Err(v) => Some(v),
    }
}

pub fn def() -> PropDef {
    PropDef {
        id: "C09",
        level: "exploration",
        rule: "name pools of 2-12 names from a closed Unicode alphabet (ASCII, cased and caseless BMP, exceptional upper-casing such as ß ŉ ǰ ı ſ µ ÿ ǅ ᾳ, supplementary-plane characters; lengths 1-31 units) built with case variants and single-character tweaks of each other; ops create under every spelling (leading/trailing slashes, '.', 'x/..' detours, case variants of existing components), create with invalid names (>31 units incl. surrogate-pair boundary, containing \\ : !), escapes from the root, second creation equal up to case, lookups under case variants, insert/remove in random orders, listing after every second step. Oracle: independent validity predicate, independent UTF-16 shortlex comparator with a Perl-derived upper-casing table, string path normaliser; refused creations must leave the bytes unchanged. Non-trivial = pool contains a non-ASCII name and a pair whose order is decided by upper-casing, and the history contains a removal; distinct = distinct case JSON.",
        assumptions: &["alphabet restricted to characters whose simple upper-casing is identical in Unicode 3.0 and 14.0; cased supplementary-plane letters are not generated (DESIGN.md 3.2)"],
        quick_cases: 2500,
        thorough_cases: 30000,
        worker,
        solo,
        hang_cpu_s: 30.0,
        extra: Some(deep_chains),
        confirm_known: false,
    }
}

//! C16 - strict acceptance implies permissive acceptance with the same meaning.

use crate::backend::Io;
use crate::engine::{obs_entry, open_options, Engine, ObsEntry, Oracles};
use crate::gen::*;
use crate::model::Model;
use crate::ops::*;
use crate::props::c04::tree_strategy;
use crate::refparse::{self, Parsed};
use crate::run::run_ops;
use crate::runner::*;
use crate::synth::*;
use crate::util::*;
use proptest::collection::vec;
use proptest::prelude::*;
use serde::{Deserialize, Serialize};
use serde_json::Value;
use std::io::Read;

#[derive(Clone, Copy, Debug, PartialEq, Eq, Serialize, Deserialize)]
pub enum Dev {
    ZeroPadFat,
    ZeroPadDifat,
    FatSectorUnmarkedEnd,
    FatSectorUnmarkedFree,
    DifatSectorUnmarkedEnd,
    DifatSectorUnmarkedFree,
    DifatChainEndFree,
    RedRed,
    UnterminatedName,
    WrongRootName,
    StreamClsid,
    StreamCreated,
    StreamModified,
    StorageStart,
    StorageSize,
    NumFatPlus,
    NumFatMinus,
    NumFatZero,
    NumFatMany,
    NumDifatOff,
    NumMinifatOff,
    V3NumDir,
    OverlongMinifat,
}

pub const ALL_DEVS: &[Dev] = &[
    Dev::ZeroPadFat,
    Dev::ZeroPadDifat,
    Dev::FatSectorUnmarkedEnd,
    Dev::FatSectorUnmarkedFree,
    Dev::DifatSectorUnmarkedEnd,
    Dev::DifatSectorUnmarkedFree,
    Dev::DifatChainEndFree,
    Dev::RedRed,
    Dev::UnterminatedName,
    Dev::WrongRootName,
    Dev::StreamClsid,
    Dev::StreamCreated,
    Dev::StreamModified,
    Dev::StorageStart,
    Dev::StorageSize,
    Dev::NumFatPlus,
    Dev::NumFatMinus,
    Dev::NumFatZero,
    Dev::NumFatMany,
    Dev::NumDifatOff,
    Dev::NumMinifatOff,
    Dev::V3NumDir,
    Dev::OverlongMinifat,
];

#[derive(Clone, Debug, Serialize, Deserialize)]
pub struct C16Case {
    pub version: u8,
    pub pool: Vec<String>,
    pub tree: TreeSpec,
    pub choices: Vec<u16>,
    pub surplus_fat: u8,
    /// Some: the base image is written by the library from this history instead
    pub lib_ops: Option<Vec<Op>>,
    pub devs: Vec<(Dev, u16)>,
    /// (class, where, value) byte-level mutations for direction A
    pub muts: Vec<(u8, u16, u8)>,
    /// replay/confirm cases only: do not avoid combinations listed as known findings
    #[serde(default)]
    pub allow_known: bool,
}

fn put32(b: &mut [u8], off: usize, v: u32) {
    b[off..off + 4].copy_from_slice(&v.to_le_bytes());
}
fn get32(b: &[u8], off: usize) -> u32 {
    u32::from_le_bytes([b[off], b[off + 1], b[off + 2], b[off + 3]])
}

/// File offset of FAT cell `i`.
fn fat_cell_off(p: &Parsed, i: usize) -> Option<usize> {
    let per = p.sector_len / 4;
    let fs = *p.difat.get(i / per)?;
    Some(p.sector_off(fs) + 4 * (i % per))
}

fn minifat_cell_off(p: &Parsed, i: usize) -> Option<usize> {
    let per = p.sector_len / 4;
    let s = *p.minifat_chain.get(i / per)?;
    Some(p.sector_off(s) + 4 * (i % per))
}

/// What a writer that does not mark FAT/DIFAT sectors may have left in the cell: the
/// library overwrites the cell before it looks at the links, so any value is tolerated.
fn unmarked_value(p: &Parsed, end_variant: bool, sel: u16, other_mark: u32) -> u32 {
    let live: Vec<u32> = p.dir_chain.iter().chain(p.ministream_chain.iter()).copied().collect();
    match (sel >> 3) % 8 {
        0 | 1 => {
            if end_variant {
                refparse::ENDOFCHAIN
            } else {
                refparse::FREESECT
            }
        }
        2 => 0,
        3 => live.first().copied().unwrap_or(1),
        4 => live.last().copied().unwrap_or(2),
        5 => p.nsectors as u32 + 5,
        6 => other_mark,
        _ => 0x0012_3456,
    }
}

/// Applies a documented deviation; returns false if it is not applicable to this image.
pub fn apply_dev(img: &mut Vec<u8>, p: &Parsed, dev: Dev, sel: u16) -> bool {
    let per = p.sector_len / 4;
    let entries_of = |typ: u8| -> Vec<usize> { p.entries.iter().enumerate().filter(|(i, e)| e.typ == typ && *i > 0).map(|(i, _)| i).collect() };
    match dev {
        Dev::ZeroPadFat => {
            if p.fat.len() <= p.nsectors {
                return false;
            }
            for i in p.nsectors..p.fat.len() {
                // only the last FAT sector's tail is "padding"
                if i / per == p.difat.len() - 1 || p.difat.len() == 1 {
                    if let Some(o) = fat_cell_off(p, i) {
                        put32(img, o, 0);
                    }
                }
            }
            (p.nsectors..p.fat.len()).any(|i| i / per == p.difat.len() - 1)
        }
        Dev::ZeroPadDifat => {
            let last = match p.difat_sectors.last() {
                Some(s) => *s,
                None => return false,
            };
            let off = p.sector_off(last);
            let mut any = false;
            for c in 0..per - 1 {
                if get32(img, off + 4 * c) == refparse::FREESECT {
                    put32(img, off + 4 * c, 0);
                    any = true;
                }
            }
            any
        }
        Dev::FatSectorUnmarkedEnd | Dev::FatSectorUnmarkedFree => {
            if p.difat.is_empty() {
                return false;
            }
            let fs = p.difat[pick(sel, p.difat.len())] as usize;
            match fat_cell_off(p, fs) {
                Some(o) => {
                    put32(img, o, unmarked_value(p, dev == Dev::FatSectorUnmarkedEnd, sel, refparse::DIFSECT));
                    true
                }
                None => false,
            }
        }
        Dev::DifatSectorUnmarkedEnd | Dev::DifatSectorUnmarkedFree => {
            if p.difat_sectors.is_empty() {
                return false;
            }
            let ds = p.difat_sectors[pick(sel, p.difat_sectors.len())] as usize;
            match fat_cell_off(p, ds) {
                Some(o) => {
                    put32(img, o, unmarked_value(p, dev == Dev::DifatSectorUnmarkedEnd, sel, refparse::FATSECT));
                    true
                }
                None => false,
            }
        }
        Dev::DifatChainEndFree => match p.difat_sectors.last() {
            Some(&s) => {
                let off = p.sector_off(s) + p.sector_len - 4;
                put32(img, off, refparse::FREESECT);
                true
            }
            None => false,
        },
        Dev::RedRed => {
            // a parent/child pair inside a sibling tree
            let mut pairs = Vec::new();
            for (i, e) in p.entries.iter().enumerate() {
                if i == 0 || e.typ == 0 {
                    continue;
                }
                for l in [e.left, e.right] {
                    if l != refparse::NOSTREAM && (l as usize) < p.entries.len() {
                        pairs.push((i, l as usize));
                    }
                }
            }
            if pairs.is_empty() {
                return false;
            }
            let (a, b) = pairs[pick(sel, pairs.len())];
            img[p.entry_offsets[a] + 67] = 0;
            img[p.entry_offsets[b] + 67] = 0;
            true
        }
        Dev::UnterminatedName => {
            let c: Vec<usize> = p.entries.iter().enumerate().filter(|(i, e)| *i > 0 && e.typ != 0 && e.name_len_field >= 2 && e.name_len_field <= 62).map(|(i, _)| i).collect();
            if c.is_empty() {
                return false;
            }
            let i = c[pick(sel, c.len())];
            let n = (p.entries[i].name_len_field / 2 - 1) as usize;
            let off = p.entry_offsets[i] + 2 * n;
            img[off] = b'X';
            img[off + 1] = 0;
            true
        }
        Dev::WrongRootName => {
            let off = p.entry_offsets[0];
            for b in img[off..off + 64].iter_mut() {
                *b = 0;
            }
            let choices = ["R", "Not The Root Entry Name", "C:\\Temp\\report.msg", "a/b", "bang!", "Root:Entry", "ROOT ENTRY", "\u{1F600} root", "0123456789012345678901234567890"];
            let name: Vec<u16> = choices[sel as usize % choices.len()].encode_utf16().collect();
            for (k, u) in name.iter().enumerate() {
                img[off + 2 * k..off + 2 * k + 2].copy_from_slice(&u.to_le_bytes());
            }
            img[off + 64..off + 66].copy_from_slice(&(((name.len() + 1) * 2) as u16).to_le_bytes());
            true
        }
        Dev::StreamClsid | Dev::StreamCreated | Dev::StreamModified => {
            let c = entries_of(2);
            if c.is_empty() {
                return false;
            }
            let i = c[pick(sel, c.len())];
            let off = p.entry_offsets[i];
            match dev {
                Dev::StreamClsid => img[off + 80 + (sel as usize % 16)] = 0x5c,
                Dev::StreamCreated => img[off + 100 + (sel as usize % 8)] = 0x17,
                _ => img[off + 108 + (sel as usize % 8)] = 0x29,
            }
            true
        }
        Dev::StorageStart | Dev::StorageSize => {
            let c = entries_of(1);
            if c.is_empty() {
                return false;
            }
            let i = c[pick(sel, c.len())];
            let off = p.entry_offsets[i];
            if dev == Dev::StorageStart {
                put32(img, off + 116, [5u32, refparse::ENDOFCHAIN, refparse::FREESECT, 0x1234_5678][sel as usize % 4]);
            } else {
                img[off + 120 + (sel as usize % if p.header.major == 3 { 4 } else { 8 })] = 0x4d;
            }
            true
        }
        Dev::NumFatPlus => {
            put32(img, 44, p.header.num_fat.wrapping_add(1));
            true
        }
        Dev::NumFatMinus => {
            if p.header.num_fat == 0 {
                return false;
            }
            put32(img, 44, p.header.num_fat - 1);
            true
        }
        Dev::NumFatZero => {
            if p.header.num_fat == 0 {
                return false;
            }
            put32(img, 44, 0);
            true
        }
        Dev::NumFatMany => {
            // (never the true count: written after another count deviation that would undo it)
            let v = [1000u32, 0x7fff_ffff, 0xffff_ffff, 110][sel as usize % 4];
            put32(img, 44, if v == p.header.num_fat { v + 7 } else { v });
            true
        }
        Dev::NumDifatOff => {
            let v = [p.header.num_difat.wrapping_add(1), p.header.num_difat.wrapping_sub(1), 77, 0xffff_ffff][sel as usize % 4];
            if v == p.header.num_difat {
                return false;
            }
            put32(img, 72, v);
            true
        }
        Dev::NumMinifatOff => {
            let v = [p.header.num_minifat.wrapping_add(1), p.header.num_minifat.wrapping_sub(1), 0, 0xffff_fff0][sel as usize % 4];
            if v == p.header.num_minifat {
                return false;
            }
            put32(img, 64, v);
            true
        }
        Dev::V3NumDir => {
            if p.header.major != 3 {
                return false;
            }
            put32(img, 40, [1u32, p.dir_chain.len() as u32, 0xffff_ffff][sel as usize % 3].max(1));
            true
        }
        Dev::OverlongMinifat => {
            let count = (p.entries[0].size / 64) as usize;
            if p.minifat.len() <= count {
                return false;
            }
            // cells beyond the mini stream's last mini sector
            let k = 1 + sel as usize % 3;
            let mut done = false;
            for i in count..(count + k).min(p.minifat.len()) {
                if let Some(o) = minifat_cell_off(p, i) {
                    put32(img, o, refparse::ENDOFCHAIN);
                    done = true;
                }
            }
            done
        }
    }
}

type Dump = (Vec<String>, Vec<(String, Result<u64, String>)>);

/// Logical dump of a library object: entries and per-stream bytes (hashed) or error kind.
fn dump(c: &mut crate::engine::Cfb) -> Result<Dump, Fail> {
    let entries = guard("walk", || c.walk().map(|e| obs_entry(&e)).collect::<Vec<ObsEntry>>())?;
    let mut streams = Vec::new();
    for e in entries.iter().filter(|e| e.is_stream) {
        let p = e.path.clone();
        let r = guard("read_all", || -> std::io::Result<Vec<u8>> {
            let mut s = c.open_stream(&p)?;
            let mut v = Vec::new();
            s.read_to_end(&mut v)?;
            Ok(v)
        })?;
        streams.push((p, r.map(|v| fnv64(&v) ^ v.len() as u64).map_err(|e| format!("{:?}", e.kind()))));
    }
    Ok((entries.iter().map(|e| format!("{:?}", e)).collect(), streams))
}

fn open_bytes(bytes: &[u8], strict: bool) -> Result<std::io::Result<crate::engine::Cfb>, Fail> {
    let io = Io::from_bytes(bytes.to_vec());
    // the validation mode must not depend on the other builder calls: the buffer size option
    // is left out, set before strict() (odd sizes) or after it (even sizes)
    // (small buffers make reading the multi-megabyte scenario images quadratic: those keep the default)
    let mb = if bytes.len() > (1 << 20) { None } else { [None, Some(0u32), Some(4096), Some(1025), None, Some(1 << 20)][(fnv64(bytes) % 6) as usize] };
    guard("open", || open_options(mb, strict).open_with(io))
}

fn mutate(img: &mut Vec<u8>, p: &Parsed, class: u8, wher: u16, val: u8) {
    let n = img.len();
    match class % 8 {
        0 => {
            // header reserved / minor version / transaction signature
            let offs = [8usize, 9, 23, 24, 25, 34, 35, 39, 52, 53, 54, 55];
            img[offs[wher as usize % offs.len()]] = val;
        }
        1 => {
            // a directory entry field that carries no structure
            if p.entries.is_empty() {
                return;
            }
            let i = pick(wher, p.entries.len());
            let off = p.entry_offsets[i];
            let fields = [67usize, 96, 97, 98, 99, 100, 104, 108, 115, 80, 95, 120, 121, 124, 127];
            img[off + fields[val as usize % fields.len()]] = val.rotate_left(3);
        }
        2 => {
            // V3: upper half of a size field
            if p.entries.is_empty() {
                return;
            }
            let i = pick(wher, p.entries.len());
            img[p.entry_offsets[i] + 124 + (val as usize % 4)] = val;
        }
        3 => {
            // FAT cell of a free sector / beyond
            if p.fat.is_empty() {
                return;
            }
            let i = pick(wher, p.fat.len());
            if p.fat[i] == refparse::FREESECT {
                if let Some(o) = fat_cell_off(p, i) {
                    put32(img, o, [0u32, refparse::ENDOFCHAIN, i as u32, refparse::FATSECT][val as usize % 4]);
                }
            }
        }
        4 => {
            // name bytes after the terminator / case of a letter
            if p.entries.is_empty() {
                return;
            }
            let i = pick(wher, p.entries.len());
            img[p.entry_offsets[i] + (val as usize % 64)] ^= 0x20;
        }
        _ => {
            // any byte
            let o = (wher as usize * 65537 + val as usize * 257) % n;
            img[o] = val;
        }
    }
}

fn strategy(tier: Tier) -> BoxedStrategy<C16Case> {
    let mut p = Profile::c01();
    p.query = 0;
    p.reopen = 0;
    p.bad = 0;
    p.fancy = 0;
    p.max_ops = 40;
    p.max_size = 9000;
    let surplus = prop_oneof![6 => Just(0u8), 1 => 1u8..4, 2 => 108u8..=112];
    let dev = (proptest::sample::select(ALL_DEVS.to_vec()), any::<u16>());
    let ndev = if tier == Tier::Thorough { 4 } else { 3 };
    (
        proptest::sample::select(vec![3u8, 3, 4]),
        pool_strategy(NameProfile::Plain, 3, 16),
        tree_strategy(24),
        vec(any::<u16>(), 0..40),
        surplus,
        proptest::option::weighted(0.3, vec(op_strategy(&p), 1..=40)),
        vec(dev, 1..=ndev),
        vec((any::<u8>(), any::<u16>(), any::<u8>()), 0..4),
    )
        .prop_map(|(version, pool, tree, choices, surplus_fat, lib_ops, devs, muts)| C16Case { version, pool, tree, choices, surplus_fat, lib_ops, devs, muts, allow_known: false })
        .boxed()
}

fn base_image(c: &C16Case) -> Result<(Vec<u8>, Model), Fail> {
    if let Some(ops) = &c.lib_ops {
        let mut eng = Engine::new(c.version, None, c.pool.clone(), Oracles::default())?;
        let (r, _) = run_ops(&mut eng, ops, None);
        r?;
        eng.close_all_handles()?;
        Ok((eng.snapshot(), eng.model.clone()))
    } else {
        let model = build_model(&c.tree, &c.pool);
        let surplus = if c.version == 4 && c.surplus_fat > 3 { 0 } else { c.surplus_fat as usize };
        let (img, _) = synthesize(&model, c.version, &c.choices, surplus);
        if let Some((id, d)) = refparse::check(&img).first() {
            return Err(Fail::new("harness|synth_invalid", format!("{} {}", id, d)));
        }
        Ok((img, model))
    }
}

fn report(c: &C16Case) -> CaseReport {
    let mut rep = CaseReport { evaluations: 0, ..CaseReport::default() };
    let (base, model) = match base_image(c) {
        Ok(x) => x,
        Err(f) => {
            rep.fail = Some(f);
            return rep;
        }
    };
    let parsed = match refparse::parse(&base) {
        Ok(p) => p,
        Err(e) => {
            rep.fail = Some(Fail::new("harness|parse", e));
            return rep;
        }
    };
    rep.classes.push(if c.lib_ops.is_some() { "base_library_written".into() } else { "base_synthesized".into() });
    let r = (|| -> Result<(), Fail> {
        // ---- direction A: whatever strict accepts, permissive accepts with the same dump
        let mut a_img = base.clone();
        for &(cl, w, v) in c.muts.iter() {
            mutate(&mut a_img, &parsed, cl, w, v);
        }
        rep.evaluations += 1;
        if let Ok(mut s) = open_bytes(&a_img, true)? {
            let changed = a_img != base;
            rep.classes.push(if changed { "A_strict_accepts_mutated".into() } else { "A_strict_accepts_unmutated".into() });
            if changed && (parsed.difat.len() >= 2 || parsed.entries.iter().any(|e| e.typ != 0 && e.color == 0)) {
                rep.nontrivial_items.push(fnv64(&a_img));
            }
            let mut pm = match open_bytes(&a_img, false)? {
                Ok(p) => p,
                Err(e) => return Err(Fail::new(format!("A|strict_ok_permissive_err|{}", normalise_msg(&e.to_string())), format!("open_strict accepts the image but open rejects it: {}", e))),
            };
            let ds = dump(&mut s)?;
            let dp = dump(&mut pm)?;
            if ds != dp {
                let what = if ds.0 != dp.0 { "entries" } else { "stream contents" };
                return Err(Fail::new(format!("A|dumps_differ|{}", what), format!("strict and permissive expose different {}: strict {:?} vs permissive {:?}", what, ds, dp).chars().take(1500).collect::<String>()));
            }
        } else if a_img != base {
            rep.classes.push("A_strict_rejects_mutated".into());
        } else {
            return Err(Fail::new("A|strict_rejects_valid_base", "open_strict rejects the unmodified base image"));
        }
        // ---- direction B: documented deviations
        let mut b_img = base.clone();
        let mut applied: Vec<Dev> = Vec::new();
        for &(d, sel) in c.devs.iter() {
            // re-parse is not needed: deviations touch disjoint fields located on the base
            if applied.contains(&d) {
                continue;
            }
            // known finding (known_findings.txt): zero-padded DIFAT combined with a header FAT
            // count that is too large; avoided here so that the search goes on behind it
            if !c.allow_known {
                let over = |x: &Dev| matches!(x, Dev::NumFatPlus | Dev::NumFatMany);
                if (d == Dev::ZeroPadDifat && applied.iter().any(over)) || (over(&d) && applied.contains(&Dev::ZeroPadDifat)) {
                    rep.excluded += 1;
                    continue;
                }
            }
            if apply_dev(&mut b_img, &parsed, d, sel) {
                applied.push(d);
            }
        }
        if applied.is_empty() {
            rep.classes.push("B_no_deviation_applicable".into());
            return Ok(());
        }
        rep.evaluations += 1;
        for d in applied.iter() {
            rep.classes.push(format!("dev_{:?}", d));
        }
        let names: Vec<String> = applied.iter().map(|d| format!("{:?}", d)).collect();
        let mut key_devs = names.clone();
        key_devs.sort();
        let io = Io::from_bytes(b_img.clone());
        let opened = guard("open", || open_options(None, false).open_with(io))?;
        let mut pm = match opened {
            Ok(p) => p,
            Err(e) => return Err(Fail::new(format!("B|permissive_rejects|{}", key_devs.join("+")), format!("open rejects an image with documented deviations {:?}: {}", names, e))),
        };
        // compare with the model through a throw-away engine
        let eng = Engine::from_image(base.clone(), model.clone(), c.version, None, c.pool.clone(), Oracles::default(), false)?;
        if let Err(f) = eng.compare_dump(&mut pm, "deviation") {
            return Err(Fail::new(format!("B|content_differs|{}", key_devs.join("+")), format!("with deviations {:?}: {}", names, f.detail)));
        }
        match open_bytes(&b_img, true)? {
            Ok(_) => return Err(Fail::new(format!("B|strict_accepts|{}", key_devs.join("+")), format!("open_strict accepts an image with deviations {:?}", names))),
            Err(_) => {}
        }
        // the path-based entry points take the same options: one case in eight goes through
        // a real file (OpenOptions::open / open_rw with and without strict())
        if fnv64(&b_img) % 8 == 0 {
            let scratch = std::env::var("VERIF_SCRATCH").unwrap_or_else(|_| "/verif/harness/target/scratch".to_string());
            let dir = std::path::PathBuf::from(scratch).join("c16");
            let _ = std::fs::create_dir_all(&dir);
            let path = dir.join(format!("w{}-{:x}.cfb", std::process::id(), fnv64(format!("{:?}", std::thread::current().id()).as_bytes())));
            if std::fs::write(&path, &b_img).is_ok() {
                rep.classes.push("B_path_based_entry_points".into());
                let results = guard("path_open", || {
                    [
                        ("OpenOptions::new().open(path)", cfb::OpenOptions::new().open(&path).is_ok(), true),
                        ("OpenOptions::new().open_rw(path)", cfb::OpenOptions::new().open_rw(&path).is_ok(), true),
                        ("OpenOptions::new().strict().open(path)", cfb::OpenOptions::new().strict().open(&path).is_ok(), false),
                        ("OpenOptions::new().strict().open_rw(path)", cfb::OpenOptions::new().strict().open_rw(&path).is_ok(), false),
                        ("cfb::open(path)", cfb::open(&path).is_ok(), true),
                        ("cfb::open_rw(path)", cfb::open_rw(&path).is_ok(), true),
                    ]
                });
                let _ = std::fs::remove_file(&path);
                for (what, ok, want) in results? {
                    if ok != want {
                        return Err(Fail::new(format!("B|path_entry_point|{}|{}", what, if want { "rejects" } else { "accepts" }), format!("{} {} an image with deviations {:?} that the in-memory {} open {}", what, if ok { "accepts" } else { "rejects" }, names, if want { "permissive" } else { "strict" }, if want { "accepts" } else { "rejects" })));
                    }
                }
            }
        }
        if applied.len() >= 2 || c.lib_ops.is_none() {
            rep.nontrivial = true;
        }
        Ok(())
    })();
    rep.fail = r.err();
    rep.evaluations = rep.evaluations.max(1);
    rep
}

fn worker(ctx: &Ctx) -> WorkerResult {
    run_worker(ctx, strategy(ctx.tier), report)
}

fn solo(v: &Value) -> Result<CaseReport, String> {
    run_solo(v, report)
}

/// Direction A on a rare strict-valid layout: exactly 236 FAT sectors (header DIFAT + one
/// completely full DIFAT sector, no padding) whose last DIFAT entry is sector 0.
fn full_difat_sector(_ctx: &Ctx, ev: &mut Value) -> Option<Violation> {
    use crate::model::{Kind, Node};
    let mut found = None;
    for payload in (15_300_000usize..15_460_000).step_by(10_000) {
        let mut model = Model::new();
        model.insert(&[], Node { name: "payload".into(), state: 1, kind: Kind::Stream { data: pattern(11, 0, payload) } });
        model.insert(&[], Node { name: "s".into(), state: 0, kind: Kind::Stream { data: pattern(12, 0, 700) } });
        let (img, info) = synthesize_opts(&model, 3, &[9, 50000, 3, 41000, 77], 0, 4);
        if info.fat_sectors == 236 && info.difat_sectors == 1 {
            found = Some((img, model));
            break;
        }
    }
    let (img, model) = match found {
        Some(x) => x,
        None => return Some(Violation { key: "harness|scenario".into(), detail: "no payload size gives exactly 236 FAT sectors".into(), case: Value::Null, trace: vec![] }),
    };
    let parsed = match refparse::parse(&img) {
        Ok(p) => p,
        Err(e) => return Some(Violation { key: "harness|parse".into(), detail: e, case: Value::Null, trace: vec![] }),
    };
    if !parsed.rules.is_empty() || parsed.difat.last() != Some(&0) {
        return Some(Violation { key: "harness|scenario".into(), detail: format!("scenario image: rules {:?}, last DIFAT entry {:?}", parsed.rules.first(), parsed.difat.last()), case: Value::Null, trace: vec![] });
    }
    let r = (|| -> Result<(), Fail> {
        let mut s = open_bytes(&img, true)?.map_err(|e| Fail::new("A|strict_rejects_valid_base|full_difat", format!("open_strict rejects a valid image with a full DIFAT sector: {}", e)))?;
        let mut p = open_bytes(&img, false)?.map_err(|e| Fail::new(format!("A|strict_ok_permissive_err|{}", normalise_msg(&e.to_string())), format!("open_strict accepts a valid image with 236 FAT sectors (full DIFAT sector, last entry = sector 0) but open rejects it: {}", e)))?;
        let (ds, dp) = (dump(&mut s)?, dump(&mut p)?);
        if ds != dp {
            return Err(Fail::new("A|dumps_differ|full_difat", "strict and permissive expose different content for the full-DIFAT-sector image"));
        }
        let eng = Engine::from_image(img.clone(), model.clone(), 3, None, vec![], Oracles::default(), false)?;
        eng.compare_dump(&mut p, "full_difat")?;
        Ok(())
    })();
    match r {
        Ok(()) => {
            ev["coverage"]["full_difat_sector_scenario"] = serde_json::json!({"fat_sectors": 236, "image_bytes": img.len(), "last_difat_entry": 0});
            None
        }
        Err(f) => Some(Violation { key: f.key, detail: f.detail, case: serde_json::json!({"scenario": "V3, 236 FAT sectors, full DIFAT sector, last DIFAT entry is sector 0"}), trace: vec![] }),
    }
}

/// Direction B on a file that *needs* a DIFAT sector (7.3 MB payload: ~112 FAT sectors, all
/// of them covering live sectors, one partly filled DIFAT sector): every injector alone
/// (4 selector values) and every pair of injectors. On small files a DIFAT sector exists only
/// through surplus FAT sectors, which cover nothing - dropping one of those is harmless.
fn big_file_deviations(ev: &mut Value) -> Option<Violation> {
    use crate::model::{Kind, Node};
    let what = "V3 file that needs ~112 FAT sectors (one partly filled DIFAT sector): documented deviations singly and in pairs";
    let mut model = Model::new();
    model.insert(&[], Node { name: "payload".into(), state: 1, kind: Kind::Stream { data: pattern(21, 0, 7_300_000) } });
    model.insert(&[], Node { name: "s".into(), state: 0, kind: Kind::Stream { data: pattern(22, 0, 700) } });
    model.insert(&[], Node { name: "dir".into(), state: 5, kind: Kind::Storage { clsid: [7; 16], created: crate::model::TimeVal::Exact(0), modified: crate::model::TimeVal::Exact(130_000_000_000_000_000), children: vec![] } });
    model.insert(&["dir".to_string()], Node { name: "tail".into(), state: 0, kind: Kind::Stream { data: pattern(23, 0, 5000) } });
    model.insert(&["dir".to_string()], Node { name: "a".into(), state: 0, kind: Kind::Stream { data: pattern(24, 0, 64) } });
    model.insert(&["dir".to_string()], Node { name: "b".into(), state: 0, kind: Kind::Stream { data: pattern(25, 0, 10) } });
    let (img, info) = synthesize(&model, 3, &[9, 50000, 3, 41000, 77, 1, 2, 3], 0);
    let parsed = match refparse::parse(&img) {
        Ok(p) => p,
        Err(e) => return Some(Violation { key: "harness|parse".into(), detail: e, case: Value::Null, trace: vec![] }),
    };
    if !parsed.rules.is_empty() || info.difat_sectors != 1 {
        return Some(Violation { key: "harness|scenario".into(), detail: format!("scenario image: rules {:?}, {} DIFAT sectors", parsed.rules.first(), info.difat_sectors), case: Value::Null, trace: vec![] });
    }
    let known = crate::runner::Known::load();
    let mut combos: Vec<Vec<(Dev, u16)>> = Vec::new();
    for &d in ALL_DEVS {
        for sel in [0u16, 1, 2, 3] {
            combos.push(vec![(d, sel)]);
        }
    }
    for (i, &a) in ALL_DEVS.iter().enumerate() {
        for &b in ALL_DEVS.iter().skip(i + 1) {
            combos.push(vec![(a, 0), (b, 0)]);
            combos.push(vec![(a, 3), (b, 3)]);
        }
    }
    let mut done = 0u64;
    let mut known_seen = 0u64;
    for combo in combos.iter() {
        let mut b_img = img.clone();
        let mut applied: Vec<Dev> = Vec::new();
        for &(d, sel) in combo.iter() {
            if apply_dev(&mut b_img, &parsed, d, sel) {
                applied.push(d);
            }
        }
        if applied.len() != combo.len() {
            continue;
        }
        let mut names: Vec<String> = applied.iter().map(|d| format!("{:?}", d)).collect();
        names.sort();
        let r = (|| -> Result<(), Fail> {
            let mut pm = match open_bytes(&b_img, false)? {
                Ok(p) => p,
                Err(e) => return Err(Fail::new(format!("B|permissive_rejects|{}", names.join("+")), format!("open rejects an image with documented deviations {:?}: {}", combo, e))),
            };
            let eng = Engine::from_image(img.clone(), model.clone(), 3, None, vec![], Oracles::default(), false)?;
            if let Err(f) = eng.compare_dump(&mut pm, "deviation") {
                return Err(Fail::new(format!("B|content_differs|{}", names.join("+")), format!("with deviations {:?}: {}", combo, f.detail)));
            }
            if open_bytes(&b_img, true)?.is_ok() {
                return Err(Fail::new(format!("B|strict_accepts|{}", names.join("+")), format!("open_strict accepts an image with deviations {:?}", combo)));
            }
            Ok(())
        })();
        done += 1;
        if let Err(f) = r {
            if f.key.starts_with("harness|") {
                return Some(Violation { key: f.key, detail: f.detail, case: Value::Null, trace: vec![] });
            }
            if known.lookup("C16", &f.key).is_some() {
                known_seen += 1;
                continue;
            }
            return Some(Violation { key: f.key, detail: format!("[{}] {}", what, f.detail), case: serde_json::json!({"scenario": what}), trace: vec![] });
        }
    }
    ev["coverage"]["big_file_deviation_combinations"] = serde_json::json!({"checked": done, "fat_sectors": info.fat_sectors, "listed_known_combinations_seen": known_seen});
    None
}

fn scenarios(ctx: &Ctx, ev: &mut Value) -> Option<Violation> {
    if let Some(v) = full_difat_sector(ctx, ev) {
        return Some(v);
    }
    big_file_deviations(ev)
}

pub fn def() -> PropDef {
    PropDef {
        id: "C16",
        level: "exploration",
        rule: "base image = synthesized foreign layout (incl. DIFAT sectors via surplus FAT sectors) or an image written by the library from a generated history. Direction A: 0-3 field/byte mutations (header reserved bytes, minor version, transaction signature, colours, metadata, sizes, V3 upper size bits, FAT cells of free sectors, name bytes, any byte); if open_strict accepts, open must accept and the two dumps (all entry fields, per-stream bytes or error kind) must be equal. Direction B: 1-3 of the 23 documented-deviation injectors applied at generated places, singly and combined; open must accept with the full dump equal to the model of the undamaged image, open_strict must reject (both modes are built with max_buffer_size absent, set before or set after strict()); one case in eight is also written to a real file and opened through the path-based entry points (OpenOptions::open / open_rw with and without strict(), cfb::open, cfb::open_rw), which must agree with the in-memory ones. Non-trivial = (A) a mutated image that strict accepts and that has >=2 FAT sectors or a red node, or (B) >=2 deviations combined or a deviation on a foreign layout; distinct = distinct case JSON / image hash.",
        assumptions: &["the 23 injectors transcribe the deviations the library's comments and tests document as tolerated", "deviations are located on the base image with the independent parser"],
        quick_cases: 2000,
        thorough_cases: 25000,
        worker,
        solo,
        hang_cpu_s: 30.0,
        extra: Some(scenarios),
        confirm_known: false,
    }
}

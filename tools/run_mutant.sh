#!/bin/bash
# Usage: tools/run_mutant.sh <patch-file|revert:<commit>> <ID> [ID...]
# Applies the patch to a scratch copy of /repo, builds the harness against it and runs the
# quick checks of the given properties there. Prints "<ID> exit=<code>" per check.
# Scratch lives under /tmp/cfb-mut and is removed afterwards (shared build cache kept in
# /tmp/cfb-mut-target until tools/run_mutant.sh --clean).
set -u
if [ "${1:-}" = "--clean" ]; then rm -rf /tmp/cfb-mut /tmp/cfb-mut-target; exit 0; fi
patch="$1"; shift
W=/tmp/cfb-mut/$$; rm -rf "$W"; mkdir -p "$W/verif/harness" "$W/out"
rsync -a --exclude target --exclude .git /repo/ "$W/repo/"
rsync -a --exclude target --exclude fuzz /verif/harness/ "$W/verif/harness/"
if [[ "$patch" == revert:* ]]; then
  c="${patch#revert:}"
  git -C /repo diff "$c" "$c^" > "$W/p.diff"
else
  cp "$patch" "$W/p.diff"
fi
( cd "$W/repo" && patch -p1 --no-backup-if-mismatch < "$W/p.diff" >/dev/null ) || { echo "PATCH FAILED"; rm -rf "$W"; exit 3; }
export CARGO_TARGET_DIR=/tmp/cfb-mut-target CARGO_NET_OFFLINE=true
if [ "${MUT_TESTS:-0}" = 1 ]; then
  ( cd "$W/repo" && cargo test --workspace --no-fail-fast --offline 2>&1 | grep -E "^test result|FAILED|panicked|error(\[|:)" | sort | uniq -c | head -12 )
fi
( cd "$W/verif/harness" && cargo build --profile checked >"$W/out/build.log" 2>&1 ) || { echo "BUILD FAILED"; tail -20 "$W/out/build.log"; rm -rf "$W"; exit 3; }
for id in "$@"; do
  VERIF_REPLAY_DIR="$W/out/replays" VERIF_EVIDENCE_DIR="$W/out/evidence" VERIF_SCRATCH="$W/out/scratch" VERIF_SCALE_PCT="${MUT_SCALE:-100}" \
    /tmp/cfb-mut-target/checked/cfbverif check "$id" quick > "$W/out/$id.log" 2>&1
  rc=$?
  echo "$id exit=$rc  $(grep -m1 -E '^worker|^replay|^extra' "$W/out/$id.log" | cut -c1-220)"
done
rm -rf "$W"

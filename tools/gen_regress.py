#!/usr/bin/env python3
"""Writes the hand-made regression cases (replay tier) for the repaired findings: one minimal
case per finding, in the JSON form of the harness's case types."""
import json, os
def raw(p): return {"Raw": p}
def data(n, seed=1): return {"len": n, "seed": seed}
def case(ops, version=3, pool=None, max_buf=None): return {"version": version, "max_buf": max_buf, "start": "Fresh", "pool": pool or ["x"], "ops": ops}
def w(prop, name, obj, key, detail):
    d = f"/verif/replays/{prop}/regress"; os.makedirs(d, exist_ok=True)
    json.dump({"property": prop, "key": key, "detail": detail, "case": obj, "trace": []}, open(f"{d}/{name}.json", "w"), indent=1, ensure_ascii=False)
CS=lambda p,n,seed=1: {"CreateStream": {"p": raw(p), "data": data(n, seed)}}
# F1 / F7 (C01, C10, C09)
f1 = case([CS("/s", 5), {"CreateStorage": {"p": raw("/s/x")}}, CS("/s/y", 3), "Walk", {"RemoveStream": {"p": raw("/s")}}])
w("C01", "f1-create-under-stream", f1, "fixed 38ab851", "create under a stream parent must be refused")
w("C10", "f1-create-under-stream", f1, "fixed 38ab851", "create under a stream parent must be refused without effect")
f7 = case([{"CreateStorage": {"p": raw("/d")}}, CS("/d/a:b", 4), {"CreateStorage": {"p": raw("/d/" + "n" * 40)}}, {"CreateStorageAll": {"p": raw("/new/bad!name")}}, {"Exists": {"p": raw("/new")}}, "Walk"])
for prop in ("C01", "C09", "C10"):
    w(prop, "f7-invalid-names", f7, "fixed f369816", "invalid names must be refused with InvalidInput and leave nothing behind")
# F3 (C09, C01)
f3 = case([CS("/", 1), CS("/\U0001F600", 2), CS("/￿", 3), "ListRoot", {"Reopen": {"strict": True}}, "ListRoot"], pool=["", "\U0001F600"])
for prop in ("C09", "C01"):
    w(prop, "f3-utf16-unit-order", f3, "fixed 5fd455a", "siblings ordered by UTF-16 code unit")
# F6 (C08)
f6 = case([CS("/a", 5000, 9), {"SetLen": {"p": raw("/a"), "len": {"Abs": 4500}}}, {"SetLen": {"p": raw("/a"), "len": {"Abs": 5000}}},
           CS("/m", 200, 7), {"RemoveStream": {"p": raw("/m")}}, CS("/n", 0), {"SetLen": {"p": raw("/n"), "len": {"Abs": 200}}}, {"ReadAll": {"p": raw("/n")}}])
w("C08", "f6-stale-bytes-on-grow", f6, "fixed d43a617", "bytes gained by set_len read zero")
# F4 (C06)
w("C06", "f4-seek-i64-min", {"init": data(100), "ops": [{"HSeek": {"slot": 0, "s": {"EndRaw": -9223372036854775808}}}, {"HSeek": {"slot": 0, "s": {"CurRaw": -9223372036854775808}}}, {"HPos": {"slot": 0}}], "big": False}, "fixed 4b9b2f3", "seek with i64::MIN is InvalidInput, not a panic")
# F5 (C07)
f5 = case([CS("/b", 10), CS("/a", 20, 2), CS("/c", 30, 3), {"HOpen": {"slot": 0, "p": raw("/a")}}, {"RemoveStream": {"p": raw("/b")}},
           {"HWriteAll": {"slot": 0, "data": data(700, 5)}}, {"HFlush": {"slot": 0}}, CS("/new", 50, 6), {"HSeek": {"slot": 0, "s": {"StartRaw": 0}}}, {"HReadToEnd": {"slot": 0}}, "Walk"])
w("C07", "f5-two-children-removal-under-handle", f5, "fixed d2f0a45", "handle on the in-order predecessor survives the removal")
# F12 (C15)
w("C15", "f12-mini-cycle", {"base": case([]), "cycle": [CS("/cyc", 100), {"RemoveStream": {"p": raw("/cyc")}}], "reps": 7}, "fixed f39388d", "create/write/remove of a small stream does not grow the file every repetition")
# F10 (C13)
w("C13", "f10-flush-after-failed-writeback", {"version": 3, "max_buf": 1024, "script": [{"CreateStream": {"slot": 0, "name": 0}}, {"Write": {"slot": 0, "data": data(1, 0)}}, {"Flush": {"slot": 0}}, {"Write": {"slot": 0, "data": data(1500, 3)}}, {"SetLen": {"slot": 0, "len": {"Abs": 4096}}}, {"SetLen": {"slot": 0, "len": {"Abs": 0}}}, {"Flush": {"slot": 0}}]}, "fixed 7e77dbb 1245af6", "flush Ok means accepted bytes are readable, under every single write-side fault")
# F11 (C14)
w("C14", "f11-walk-during-write", {"version": 3, "max_buf": 1024, "tree_len": 11, "sizes": [700, 10, 1500, 4096, 0, 10, 700, 5000, 10, 1500, 5000],
   "readers": [[{"Walk": 12}, {"ReadStorage": [1, 5]}, {"TwoIters": [1, 6]}], [{"Walk": 8}]],
   "io": [{"Open": [0, 0]}, {"Write": [0, data(3000, 1)]}, {"Flush": 0}, {"Write": [0, data(1500, 2)]}, {"SetLen": [0, 64]}, {"Flush": 0}],
   "schedule": [0, 255, 0, 255, 128, 7, 200, 31, 0, 0, 255, 255, 90, 14]}, "fixed 51bc258", "iterating while a stream writer waits for the lock must not deadlock")
# F9 (C12)
tree = {"root_clsid": [0]*16, "root_state": 0, "root_created": 0, "root_modified": 0, "items": [{"parent": 0, "name": 0, "state": 0, "kind": {"Stream": {"data": data(300, 4)}}}]}
w("C12", "f9-read-after-failed-refill", {"version": 3, "pool": ["a", "b"], "tree": tree, "choices": [], "big_len": 10000, "max_buf": 1024, "strict": False,
   "script": [{"HOpen": {"slot": 0, "p": raw("/big")}}] + [{"HRead": {"slot": 0, "n": 1000}}] * 11 + [{"HReadToEnd": {"slot": 0}}], "pair_seed": 1}, "fixed 2196b2a", "a failed refill must not make the next read return the previous window")
print("regress cases written")

//! C18 - results do not depend on buffering, I/O chunking, backend or run.

use crate::engine::{Oracles, Stats};
use crate::gen::*;
use crate::ops::*;
use crate::run::{make_engine, run_ops};
use crate::runner::*;
use crate::util::*;
use proptest::collection::vec;
use proptest::prelude::*;
use serde::{Deserialize, Serialize};
use serde_json::Value;

#[derive(Clone, Debug, Serialize, Deserialize)]
pub struct C18Case {
    pub pool: Vec<String>,
    pub ops: Vec<Op>,
    pub chops: Vec<Vec<u8>>,
}

fn op_strategy18() -> BoxedStrategy<Op> {
    let ms = 12288;
    let slot = 0u8..3;
    prop_oneof![
        5 => create_path(1, 1).prop_map(|p| Op::CreateStorage { p }),
        1 => create_path(1, 1).prop_map(|p| Op::CreateStorageAll { p }),
        8 => (create_path(1, 1), data_strategy(ms)).prop_map(|(p, data)| Op::CreateStream { p, data }),
        2 => (create_path(1, 1), data_strategy(ms)).prop_map(|(p, data)| Op::CreateNewStream { p, data }),
        4 => target_path(PickKind::Stream, 1, 1).prop_map(|p| Op::RemoveStream { p }),
        2 => target_path(PickKind::Storage, 1, 1).prop_map(|p| Op::RemoveStorage { p }),
        1 => target_path(PickKind::Storage, 1, 1).prop_map(|p| Op::RemoveStorageAll { p }),
        3 => (target_path(PickKind::Stream, 1, 1), any::<u16>(), data_strategy(ms)).prop_map(|(p, frac, data)| Op::Overwrite { p, frac, data }),
        3 => (target_path(PickKind::Stream, 1, 1), len_spec(ms)).prop_map(|(p, len)| Op::SetLen { p, len }),
        3 => target_path(PickKind::Stream, 1, 1).prop_map(|p| Op::ReadAll { p }),
        1 => Just(Op::Walk),
        1 => target_path(PickKind::StorageOrRoot, 1, 1).prop_map(|p| Op::List { p }),
        1 => (target_path(PickKind::StorageOrRoot, 1, 1), clsid_strategy()).prop_map(|(p, clsid)| Op::SetClsid { p, clsid }),
        1 => (target_path(PickKind::AnyOrRoot, 1, 1), state_strategy()).prop_map(|(p, bits)| Op::SetStateBits { p, bits }),
        1 => (target_path(PickKind::AnyOrRoot, 1, 1), time_strategy()).prop_map(|(p, t)| Op::SetModified { p, t }),
        2 => any::<bool>().prop_map(|strict| Op::Reopen { strict }),
        1 => Just(Op::Flush),
        // chunking-independent handle composites
        2 => (slot.clone(), target_path(PickKind::Stream, 1, 0)).prop_map(|(slot, p)| Op::HOpen { slot, p }),
        1 => (slot.clone(), create_path(1, 0)).prop_map(|(slot, p)| Op::HCreate { slot, p }),
        4 => (slot.clone(), data_strategy(ms)).prop_map(|(slot, data)| Op::HWriteAll { slot, data }),
        2 => (slot.clone(), size_strategy(ms)).prop_map(|(slot, n)| Op::HReadExact { slot, n }),
        1 => slot.clone().prop_map(|slot| Op::HReadToEnd { slot }),
        3 => (slot.clone(), seek_strategy()).prop_map(|(slot, s)| Op::HSeek { slot, s }),
        2 => (slot.clone(), len_spec(ms)).prop_map(|(slot, len)| Op::HSetLen { slot, len }),
        2 => slot.clone().prop_map(|slot| Op::HFlush { slot }),
        1 => slot.clone().prop_map(|slot| Op::HLen { slot }),
        1 => slot.clone().prop_map(|slot| Op::HPos { slot }),
        1 => slot.prop_map(|slot| Op::HClose { slot }),
    ]
    .boxed()
}

fn strategy(tier: Tier) -> BoxedStrategy<C18Case> {
    let n = if tier == Tier::Thorough { 90 } else { 45 };
    let chop = prop_oneof![
        2 => vec(any::<u8>(), 1..40),
        1 => vec(0u8..128, 1..20),       // many 1-byte transfers and interrupts
        1 => vec(32u8..128, 1..8),       // only 1-byte transfers
    ];
    (pool_strategy(NameProfile::Plain, 4, 10), vec(op_strategy18(), 3..=n), vec(chop, 3)).prop_map(|(pool, ops, chops)| C18Case { pool, ops, chops }).boxed()
}

const BUFS: &[Option<u32>] = &[Some(0), Some(1024), Some(1500), Some(65536), None];

struct RunOut {
    image: Vec<u8>,
    stats: Stats,
    counters: Option<crate::backend::Counters>,
}

fn one_run(c: &C18Case, version: u8, mb: Option<u32>, mut o: Oracles, label: &str) -> Result<RunOut, (Fail, Vec<String>)> {
    o.pin_new_times = true;
    // the real-file run of version 4 goes through cfb::create(path) and then opens the path;
    // every other run of that version reopens after creation too (same library calls)
    o.reopen_after_create = version == 4;
    o.final_reopen = true;
    o.dump_every = 9;
    let case = Case { version, max_buf: mb, start: Start::Fresh, pool: c.pool.clone(), ops: c.ops.clone() };
    let mut eng = make_engine(&case, o).map_err(|f| (f, vec![]))?;
    let (r, _) = run_ops(&mut eng, &case.ops, None);
    if let Err(mut f) = r {
        f.detail = format!("[{} V{} max_buffer_size {:?}] {}", label, version, mb, f.detail);
        f.key = format!("{}|{}", f.key, label);
        return Err((f, std::mem::take(&mut eng.trace)));
    }
    // make sure everything is on the backend before the image is taken
    let _ = guard("flush", || eng.lib().flush());
    let image = eng.snapshot();
    let counters = eng.ctl.as_ref().map(|c| c.lock().unwrap().counters.clone());
    Ok(RunOut { image, stats: eng.stats.clone(), counters })
}

fn report(c: &C18Case) -> Result<CaseReport, Fail> {
    let mut rep = CaseReport { evaluations: 0, ..CaseReport::default() };
    let scratch = std::env::var("VERIF_SCRATCH").unwrap_or_else(|_| "/verif/harness/target/scratch".to_string());
    let dir = std::path::PathBuf::from(scratch).join("c18");
    let _ = std::fs::create_dir_all(&dir);
    let file_path = dir.join(format!("w{}-{:x}.cfb", std::process::id(), fnv64(format!("{:?}", std::thread::current().id()).as_bytes())));
    let mut saw_short_r = false;
    let mut saw_short_w = false;
    let mut saw_intr = false;
    let mut has_mini = false;
    let mut has_big = false;
    let mut has_removal = false;
    for &version in &[3u8, 4u8] {
        for (bi, &mb) in BUFS.iter().enumerate() {
            let mut images: Vec<(String, Vec<u8>)> = Vec::new();
            let mut variants: Vec<(String, Oracles)> = vec![("memory_run_1".into(), Oracles::default()), ("memory_run_2".into(), Oracles::default())];
            // the real-file backend and the choppy backends rotate over the buffer sizes
            variants.push(("fs_file".into(), Oracles { file_path: Some(file_path.clone()), ..Oracles::default() }));
            let chop = c.chops[(bi + version as usize) % c.chops.len()].clone();
            variants.push(("choppy".into(), Oracles { chop: Some(chop), ..Oracles::default() }));
            if bi == 1 {
                for (i, ch) in c.chops.iter().enumerate() {
                    variants.push((format!("choppy_{}", i), Oracles { chop: Some(ch.clone()), ..Oracles::default() }));
                }
            }
            for (label, o) in variants {
                rep.evaluations += 1;
                match one_run(c, version, mb, o, &label) {
                    Err((f, trace)) => {
                        rep.fail = Some(f);
                        rep.trace = trace;
                        let _ = std::fs::remove_file(&file_path);
                        return Ok(rep);
                    }
                    Ok(out) => {
                        if let Some(cn) = &out.counters {
                            saw_short_r |= cn.short_reads > 0;
                            saw_short_w |= cn.short_writes > 0;
                            saw_intr |= cn.interrupts > 0;
                        }
                        has_removal |= out.stats.has("removal_zero_or_one_child") || c.ops.iter().any(|o| matches!(o, Op::RemoveStream { .. }));
                        images.push((label, out.image));
                    }
                }
            }
            // within one (version, buffer size): byte-identical images
            for (label, img) in images.iter().skip(1) {
                if img != &images[0].1 {
                    let a = &images[0].1;
                    let first = a.iter().zip(img.iter()).position(|(x, y)| x != y).unwrap_or(a.len().min(img.len()));
                    rep.fail = Some(Fail::new(
                        format!("image_differs|{}", label.trim_end_matches(|ch: char| ch.is_ascii_digit() || ch == '_')),
                        format!("[V{} max_buffer_size {:?}] final image of backend/run '{}' differs from '{}': lengths {} vs {}, first difference at offset {}", version, mb, label, images[0].0, img.len(), a.len(), first),
                    ));
                    let _ = std::fs::remove_file(&file_path);
                    return Ok(rep);
                }
            }
            // cfb::open on the path (fs::File): the file written through the real-file backend
            // is opened with the crate's path-based entry point
            if bi == 0 {
                let _ = std::fs::write(&file_path, &images[0].1);
                match guard("cfb::open", || cfb::open(&file_path).map(|c| c.walk().count()))? {
                    Ok(_) => {}
                    Err(e) => {
                        rep.fail = Some(Fail::new("fs_open|Err", format!("cfb::open(path) on the final image failed: {}", e)));
                        let _ = std::fs::remove_file(&file_path);
                        return Ok(rep);
                    }
                }
            }
        }
    }
    let _ = std::fs::remove_file(&file_path);
    for o in c.ops.iter() {
        if let Op::CreateStream { data, .. } | Op::HWriteAll { data, .. } = o {
            if data.len > 0 && data.len < 4096 {
                has_mini = true;
            }
            if data.len > 8192 {
                has_big = true;
            }
        }
    }
    for (k, v) in [("short_read", saw_short_r), ("short_write", saw_short_w), ("interrupted", saw_intr), ("mini_stream", has_mini), ("stream_gt_2_sectors", has_big), ("removal", has_removal)] {
        if v {
            rep.classes.push(k.into());
        }
    }
    rep.nontrivial = saw_short_r && saw_short_w && saw_intr && has_mini && has_big && has_removal;
    Ok(rep)
}

fn report_wrapped(c: &C18Case) -> CaseReport {
    match report(c) {
        Ok(r) => r,
        Err(f) => CaseReport { fail: Some(f), evaluations: 1, ..CaseReport::default() },
    }
}

fn worker(ctx: &Ctx) -> WorkerResult {
    run_worker(ctx, strategy(ctx.tier), report_wrapped)
}

fn solo(v: &Value) -> Result<CaseReport, String> {
    run_solo(v, report_wrapped)
}

/// A version-3 file grown past its 109th FAT sector (the header DIFAT is full and a DIFAT
/// sector is added) - the rarely taken table-growth writes - under the in-memory backend and
/// under short counts / Interrupted: same results, byte-identical images.
fn big_file_chunking(_ctx: &Ctx, ev: &mut Value) -> Option<Violation> {
    let raw = |s: &str| PathSpec::Raw(s.to_string());
    let c = C18Case {
        pool: vec![],
        ops: vec![
            Op::CreateStream { p: raw("/big"), data: DataSpec { len: 7_200_000, seed: 3 } },
            Op::CreateStorage { p: raw("/st") },
            Op::CreateStream { p: raw("/st/small"), data: DataSpec { len: 300, seed: 4 } },
            Op::SetLen { p: raw("/big"), len: LenSpec::Abs(7_400_000) },
            Op::ReadAll { p: raw("/st/small") },
            Op::Reopen { strict: true },
            Op::Overwrite { p: raw("/big"), frac: 40000, data: DataSpec { len: 70_000, seed: 9 } },
        ],
        // a mixed plan, only-1-byte transfers, and Interrupted before every 1-byte transfer
        chops: vec![vec![200, 130, 150, 40, 10, 255, 180, 129, 224], vec![40], vec![10, 40]],
    };
    let what = "V3 file grown to 7.4 MB (110+ FAT sectors, first DIFAT sector) under memory and choppy backends";
    let viol = |f: Fail, trace: Vec<String>| Violation { key: f.key, detail: format!("[{}] {}", what, f.detail), case: serde_json::json!({"scenario": what}), trace: trace.into_iter().rev().take(12).rev().collect() };
    let mut runs = 0u64;
    for &mb in &[None, Some(1024u32)] {
        let mut images: Vec<(String, Vec<u8>)> = Vec::new();
        let mut variants: Vec<(String, Oracles)> = vec![("memory".into(), Oracles::default())];
        for (i, ch) in c.chops.iter().enumerate() {
            variants.push((format!("choppy_{}", i), Oracles { chop: Some(ch.clone()), ..Oracles::default() }));
        }
        for (label, o) in variants {
            runs += 1;
            match one_run(&c, 3, mb, o, &label) {
                Err((f, trace)) => {
                    if f.key.starts_with("harness|") {
                        return Some(Violation { key: f.key, detail: f.detail, case: Value::Null, trace: vec![] });
                    }
                    return Some(viol(f, trace));
                }
                Ok(out) => images.push((label, out.image)),
            }
        }
        for (label, img) in images.iter().skip(1) {
            if img != &images[0].1 {
                let a = &images[0].1;
                let first = a.iter().zip(img.iter()).position(|(x, y)| x != y).unwrap_or(a.len().min(img.len()));
                return Some(viol(Fail::new("image_differs|choppy|big_file", format!("[max_buffer_size {:?}] final image of '{}' differs from '{}': lengths {} vs {}, first difference at offset {}", mb, label, images[0].0, img.len(), a.len(), first)), vec![]));
            }
        }
    }
    ev["coverage"]["big_file_chunking_runs"] = serde_json::json!(runs);
    None
}

pub fn def() -> PropDef {
    PropDef {
        id: "C18",
        level: "exploration",
        rule: "histories of namespace/content/metadata ops and chunking-independent handle composites (write_all, read_exact, read_to_end, seek, set_len, flush, len, position), every new storage's times pinned through the public setters; each history runs under V3 and V4 x max_buffer_size in {0,1024,1500,65536,default} x backends {in-memory run 1, in-memory run 2, real std::fs::File in a scratch directory (with the history's reopen ops closing and reopening the path), choppy backend with generated short read/write counts and spurious Interrupted (3 plans per case)}; all results are compared with the model in every run (so they are equal across all runs), and within one (version, buffer size) the final images must be byte-identical; the final image is also opened through cfb::open(path); for version 4 the real file is made by cfb::create(path) on a path that already holds a longer file of other bytes. A scenario step grows a version-3 file to 7.4 MB (first DIFAT sector) under the in-memory backend and three chop plans (mixed, only 1-byte transfers, Interrupted before every 1-byte transfer) x 2 buffer sizes. evaluations = executions. Non-trivial = history with a mini stream, a stream > 8 KiB and a removal, in which the choppy backend delivered a short read, a short write and an Interrupted; distinct = distinct case JSON.",
        assumptions: &["Interrupted is injected on read and write only and never twice in a row (std's retry loops make progress); seek is not interruptible in std's contract"],
        quick_cases: 70,
        thorough_cases: 1500,
        worker,
        solo,
        hang_cpu_s: 120.0,
        extra: Some(big_file_chunking),
        confirm_known: false,
    }
}

//! Engine: stream-handle operations and the per-step oracles (dump, reopen, grow check).

use crate::backend::Io;
use crate::engine::*;
use crate::engine_ops::{describe_diff, resolve_len};
use crate::model::*;
use crate::ops::*;
use crate::util::*;
use std::io::{BufRead, Read, Seek, SeekFrom, Write};

fn stream_data<'a>(m: &'a Model, path: &[String]) -> &'a Vec<u8> {
    match &m.get(path).expect("handle's stream exists in model").kind {
        Kind::Stream { data } => data,
        _ => panic!("handle on a storage"),
    }
}

fn stream_data_mut<'a>(m: &'a mut Model, path: &[String]) -> &'a mut Vec<u8> {
    match &mut m.get_mut(path).expect("handle's stream exists in model").kind {
        Kind::Stream { data } => data,
        _ => panic!("handle on a storage"),
    }
}

pub fn resolve_seek(s: &SeekSpec, len: u64, pos: u64) -> SeekFrom {
    let scaled = |frac: u16| -> i64 { ((len as u128 * (frac as u128 + 1)) >> 16) as i64 };
    match s {
        SeekSpec::Start { frac, delta } => SeekFrom::Start((scaled(*frac) + *delta as i64).max(0) as u64),
        SeekSpec::End { frac, delta } => SeekFrom::End(-scaled(*frac) + *delta as i64),
        SeekSpec::Cur { frac, delta } => SeekFrom::Current(scaled(*frac) + *delta as i64 - pos as i64),
        SeekSpec::StartRaw(v) => SeekFrom::Start(*v),
        SeekSpec::EndRaw(v) => SeekFrom::End(*v),
        SeekSpec::CurRaw(v) => SeekFrom::Current(*v),
    }
}

/// Expected result of a seek on a stream of `len` at `pos`: Some(new) or None (InvalidInput).
pub fn model_seek(sf: SeekFrom, len: u64, pos: u64) -> Option<u64> {
    let target: i128 = match sf {
        SeekFrom::Start(v) => v as i128,
        SeekFrom::End(d) => len as i128 + d as i128,
        SeekFrom::Current(d) => pos as i128 + d as i128,
    };
    if target < 0 || target > len as i128 {
        None
    } else {
        Some(target as u64)
    }
}

impl Engine {
    pub(crate) fn close_slot(&mut self, slot: usize) -> Result<(), Fail> {
        self.own_writes[slot].clear();
        if let Some(h) = self.handles[slot].take() {
            guard("h_close", move || drop(h.stream))?;
        }
        Ok(())
    }

    pub fn close_all_handles(&mut self) -> Result<(), Fail> {
        for s in 0..self.handles.len() {
            self.close_slot(s)?;
        }
        for h in std::mem::take(&mut self.stale) {
            guard("h_close_stale", move || drop(h))?;
        }
        Ok(())
    }

    /// One call through a handle whose own stream was removed. Whatever it returns, it must
    /// not panic and must leave every existing object as the model has it (the regular
    /// comparisons after the step decide that).
    fn stale_use(&mut self, k: u8, how: u8, data: &DataSpec) -> Result<(), Fail> {
        if self.stale.is_empty() {
            return Ok(());
        }
        let i = k as usize % self.stale.len();
        self.stats.bump("stale_handle_op");
        let bytes = data.bytes();
        let what = ["read", "write_all+flush", "set_len", "seek+read", "write", "drop"][how as usize % 6];
        if how % 6 == 5 {
            let h = self.stale.remove(i);
            self.trace.push(format!("stale[{}]: drop", i));
            return guard("stale_drop", move || drop(h));
        }
        let h = &mut self.stale[i];
        let shown = guard("stale_use", || -> String {
            match how % 6 {
                0 => {
                    let mut b = vec![0u8; 300];
                    format!("{:?}", h.read(&mut b).map_err(|e| e.kind()))
                }
                1 => format!("{:?}", h.write_all(&bytes).and_then(|_| h.flush()).map_err(|e| e.kind())),
                2 => format!("{:?}", h.set_len(bytes.len() as u64).map_err(|e| e.kind())),
                3 => {
                    let mut b = vec![0u8; 5000];
                    format!("{:?}", h.seek(SeekFrom::Start(0)).and_then(|_| h.read(&mut b)).map_err(|e| e.kind()))
                }
                _ => format!("{:?}", h.write(&bytes).map_err(|e| e.kind())),
            }
        })?;
        self.trace.push(format!("stale[{}]: {} ({} bytes) -> {}", i, what, bytes.len(), shown));
        Ok(())
    }

    pub(crate) fn step_handle(&mut self, op: &Op) -> Result<(), Fail> {
        match op {
            Op::HStaleUse { k, how, data } => return self.stale_use(*k, *how, data),
            Op::HOpen { slot, p } | Op::HCreate { slot, p } => {
                let slot = *slot as usize % self.handles.len();
                let create = matches!(op, Op::HCreate { .. });
                if create && !self.stale.is_empty() {
                    self.stats.excluded += 1;
                    return Ok(());
                }
                let opk = if create { "create_stream" } else { "open_stream" };
                let r = self.resolve(p);
                if let NormPath::Ok(names) = &r.norm {
                    if let Some(other) = self.handle_on(names) {
                        if other != slot || create {
                            // never two handles on one stream, never recreate under a handle
                            self.stats.excluded += 1;
                            return Ok(());
                        }
                    }
                }
                self.close_slot(slot)?;
                self.trace.push(format!("h{} = {}({:?})", slot, opk, r.show()));
                let path = r.path();
                let res = guard(opk, || if create { self.lib().create_stream(&path) } else { self.lib().open_stream(&path) })?;
                if create {
                    match &r.norm {
                        NormPath::Invalid => {
                            self.check_outcome(opk, "invalid_path", &[ErrKind::InvalidInput], &res, &r.show())?;
                        }
                        NormPath::Ok(names) => {
                            let plan = self.model.plan_create(names, true);
                            let sit = if plan.refusals.is_empty() { "new_or_replace" } else { "refused" };
                            if self.check_outcome(opk, sit, &plan.refusals, &res, &r.show())? {
                                if plan.existing_is_stream == Some(true) {
                                    self.model.get_mut(names).unwrap().kind = Kind::Stream { data: vec![] };
                                    self.settle_replaced_state(names)?;
                                } else {
                                    self.model.insert(&plan.parent, Node { name: plan.name.clone(), state: 0, kind: Kind::Stream { data: vec![] } });
                                }
                                let stored = self.stored_chain(names);
                                self.handles[slot] = Some(Handle { stream: res.unwrap(), path: stored, pos: 0, dirty: false });
                                self.stats.bump("handle_opened");
                            }
                        }
                    }
                } else {
                    let (sit, refusals, names) = self.lookup_refusals(&r, 1);
                    if self.check_outcome(opk, &sit, &refusals, &res, &r.show())? {
                        let stored = self.stored_chain(&names.unwrap());
                        self.handles[slot] = Some(Handle { stream: res.unwrap(), path: stored, pos: 0, dirty: false });
                        self.stats.bump("handle_opened");
                    }
                }
                return Ok(());
            }
            _ => {}
        }
        let slot = match op {
            Op::HRead { slot, .. }
            | Op::HReadExact { slot, .. }
            | Op::HFillConsume { slot, .. }
            | Op::HWrite { slot, .. }
            | Op::HWriteAll { slot, .. }
            | Op::HSeek { slot, .. }
            | Op::HSetLen { slot, .. }
            | Op::HFlush { slot }
            | Op::HLen { slot }
            | Op::HPos { slot }
            | Op::HReadToEnd { slot }
            | Op::HWriteV { slot, .. }
            | Op::HReadV { slot, .. }
            | Op::HReadUntil { slot, .. }
            | Op::HRewind { slot }
            | Op::HClose { slot } => *slot as usize % self.handles.len(),
            _ => unreachable!("not a handle op"),
        };
        if self.handles[slot].is_none() {
            if matches!(op, Op::HClose { .. }) {
                return Ok(());
            }
            // empty slot: open a handle on an existing stream first (deterministic choice)
            let idx = ((self.op_index as u32).wrapping_mul(40503).wrapping_add(slot as u32 * 21845) & 0xffff) as u16;
            let streams = self.model.streams();
            let free: Vec<&Vec<String>> = streams.iter().filter(|s| self.handle_on(s).is_none()).collect();
            if free.is_empty() {
                return Ok(());
            }
            let target = free[pick(idx, free.len())].clone();
            let path = std::path::PathBuf::from(path_string(&target));
            self.trace.push(format!("h{} = open_stream({:?}) [auto]", slot, path));
            let res = guard("open_stream", || self.lib().open_stream(&path))?;
            match res {
                Ok(st) => {
                    self.handles[slot] = Some(Handle { stream: st, path: target, pos: 0, dirty: false });
                    self.stats.bump("handle_opened");
                }
                Err(e) => return Err(Fail::new("mismatch|open_stream|exists|Ok|Err", format!("open_stream({:?}) failed: {}", path, e))),
            }
        }
        if let Op::HClose { .. } = op {
            self.trace.push(format!("drop(h{})", slot));
            self.close_slot(slot)?;
            return Ok(());
        }
        let mut h = self.handles[slot].take().unwrap();
        let w0 = self.ctl.as_ref().map(|c| c.lock().unwrap().counters.writes).unwrap_or(0);
        let was_dirty = h.dirty;
        let pos0 = h.pos;
        let r = self.handle_op(slot, &mut h, op);
        let w1 = self.ctl.as_ref().map(|c| c.lock().unwrap().counters.writes).unwrap_or(0);
        if r.is_ok() {
            if w1 > w0 && was_dirty && matches!(op, Op::HRead { .. } | Op::HReadExact { .. } | Op::HFillConsume { .. } | Op::HWrite { .. } | Op::HWriteAll { .. } | Op::HSeek { .. } | Op::HReadToEnd { .. } | Op::HWriteV { .. } | Op::HReadV { .. } | Op::HReadUntil { .. } | Op::HRewind { .. }) {
                self.stats.bump("writeback_during_op");
                self.writebacks += 1;
            }
            match op {
                Op::HWrite { .. } | Op::HWriteAll { .. } | Op::HWriteV { .. } => {
                    if h.pos > pos0 {
                        self.own_writes[slot].push((pos0, h.pos));
                    }
                }
                Op::HRead { .. } | Op::HReadExact { .. } | Op::HFillConsume { .. } | Op::HReadToEnd { .. } | Op::HReadV { .. } | Op::HReadUntil { .. } => {
                    if h.pos > pos0 {
                        if self.own_writes[slot].iter().any(|&(a, b)| a < h.pos && pos0 < b) {
                            self.stats.bump("read_own_writes");
                        }
                        if self.ev_pred_removed {
                            self.stats.bump("handle_used_after_pred_removal");
                        }
                        if self.ev_slot_reused {
                            self.stats.bump("handle_used_after_slot_reuse");
                        }
                    }
                }
                _ => {}
            }
            if matches!(op, Op::HWrite { .. } | Op::HWriteAll { .. } | Op::HWriteV { .. } | Op::HSetLen { .. }) {
                if self.ev_pred_removed {
                    self.stats.bump("handle_used_after_pred_removal");
                }
                if self.ev_slot_reused {
                    self.stats.bump("handle_used_after_slot_reuse");
                }
            }
        }
        self.handles[slot] = Some(h);
        r
    }

    fn stored_chain(&self, names: &[String]) -> Vec<String> {
        let mut cur = &self.model.root;
        let mut out = Vec::new();
        for n in names {
            let i = cur.find_child(n).unwrap();
            cur = &cur.children()[i];
            out.push(cur.name.clone());
        }
        out
    }

    fn handle_op(&mut self, slot: usize, h: &mut Handle, op: &Op) -> Result<(), Fail> {
        let len = stream_data(&self.model, &h.path).len() as u64;
        let hp = path_string(&h.path);
        match op {
            Op::HRead { n, .. } => {
                let n = *n as usize;
                self.trace.push(format!("h{}.read({}) [pos {} len {}]", slot, n, h.pos, len));
                let mut buf = vec![0u8; n];
                let res = guard("h_read", || h.stream.read(&mut buf))?;
                let k = match res {
                    Ok(k) => k,
                    Err(e) => return Err(Fail::new("mismatch|h_read|valid|Ok|Err", format!("read({}) on {} failed: {}", n, hp, e))),
                };
                let avail = (len - h.pos) as usize;
                let data = stream_data(&self.model, &h.path);
                if k > n.min(avail) || (k == 0 && n > 0 && avail > 0) {
                    return Err(Fail::new("mismatch|h_read|count|1..=min(n,avail)|other", format!("read({}) at pos {} of {} (len {}) returned {}", n, h.pos, hp, len, k)));
                }
                let exp = &data[h.pos as usize..h.pos as usize + k];
                if exp != &buf[..k] {
                    return Err(Fail::new("mismatch|h_read|bytes|model_bytes|other_bytes", describe_diff(&format!("{} read at {}", hp, h.pos), exp, &buf[..k])));
                }
                h.pos += k as u64;
                if k > 0 {
                    self.stats.bump("h_read_bytes");
                }
            }
            Op::HReadExact { n, .. } => {
                let n = *n as usize;
                self.trace.push(format!("h{}.read_exact({}) [pos {} len {}]", slot, n, h.pos, len));
                let mut buf = vec![0u8; n];
                let res = guard("h_read_exact", || h.stream.read_exact(&mut buf))?;
                let avail = (len - h.pos) as usize;
                match res {
                    Ok(()) => {
                        if n > avail {
                            return Err(Fail::new("mismatch|h_read_exact|past_end|Err|Ok", format!("read_exact({}) with only {} bytes left succeeded", n, avail)));
                        }
                        let data = stream_data(&self.model, &h.path);
                        let exp = &data[h.pos as usize..h.pos as usize + n];
                        if exp != &buf[..] {
                            return Err(Fail::new("mismatch|h_read_exact|bytes|model_bytes|other_bytes", describe_diff(&format!("{} read_exact at {}", hp, h.pos), exp, &buf)));
                        }
                        h.pos += n as u64;
                    }
                    Err(e) => {
                        if n <= avail || e.kind() != std::io::ErrorKind::UnexpectedEof {
                            return Err(Fail::new("mismatch|h_read_exact|valid|Ok|Err", format!("read_exact({}) with {} bytes left failed: {}", n, avail, e)));
                        }
                        // position after a failed read_exact is unspecified: resynchronise
                        let p = guard("h_pos", || h.stream.stream_position())?.map_err(|e| Fail::new("mismatch|h_pos|valid|Ok|Err", e.to_string()))?;
                        if p < h.pos || p > len {
                            return Err(Fail::new("mismatch|h_pos|after_failed_read_exact|in_range|out_of_range", format!("position {} after failed read_exact (was {}, len {})", p, h.pos, len)));
                        }
                        h.pos = p;
                    }
                }
            }
            Op::HFillConsume { frac, .. } => {
                self.trace.push(format!("h{}.fill_buf()+consume(frac {}) [pos {} len {}]", slot, frac, h.pos, len));
                let data = stream_data(&self.model, &h.path);
                let pos = h.pos as usize;
                let res = guard("h_fill_buf", || -> std::io::Result<(usize, bool)> {
                    let s = h.stream.fill_buf()?;
                    let l = s.len();
                    let ok = l <= data.len() - pos && s == &data[pos..pos + l];
                    let take = if l == 0 { 0 } else { ((l as u64 * (*frac as u64 + 1) + 65535) >> 16) as usize };
                    let take = take.min(l);
                    h.stream.consume(take);
                    Ok((if ok { l } else { usize::MAX }, take > 0))
                })?;
                match res {
                    Err(e) => return Err(Fail::new("mismatch|h_fill_buf|valid|Ok|Err", format!("fill_buf on {} failed: {}", hp, e))),
                    Ok((l, _)) if l == usize::MAX => {
                        return Err(Fail::new("mismatch|h_fill_buf|bytes|prefix_of_model|other", format!("fill_buf at pos {} of {} (len {}) returned bytes that are not a prefix of the remaining content", h.pos, hp, len)));
                    }
                    Ok((l, _)) => {
                        if l == 0 && h.pos < len {
                            return Err(Fail::new("mismatch|h_fill_buf|count|nonempty|empty", format!("fill_buf at pos {} of {} (len {}) returned an empty slice", h.pos, hp, len)));
                        }
                        let take = if l == 0 { 0 } else { (((l as u64 * (*frac as u64 + 1) + 65535) >> 16) as usize).min(l) };
                        h.pos += take as u64;
                    }
                }
            }
            Op::HWrite { data, .. } | Op::HWriteAll { data, .. } => {
                let all = matches!(op, Op::HWriteAll { .. });
                let mut bytes = data.bytes();
                // every fourth write_all goes through Write::write_fmt (two pieces of printable ASCII)
                let fmt = all && self.op_index % 4 == 2;
                if fmt {
                    for b in bytes.iter_mut() {
                        *b = 0x20 + *b % 95;
                    }
                }
                self.trace.push(format!("h{}.{}({} bytes, seed {}) [pos {} len {}]", slot, if fmt { "write_fmt" } else if all { "write_all" } else { "write" }, bytes.len(), data.seed, h.pos, len));
                let res = guard("h_write", || {
                    if fmt {
                        let text = std::str::from_utf8(&bytes).unwrap_or("");
                        let (a, b) = text.split_at(text.len() / 2);
                        write!(h.stream, "{}{}", a, b).map(|_| bytes.len())
                    } else if all {
                        h.stream.write_all(&bytes).map(|_| bytes.len())
                    } else {
                        h.stream.write(&bytes)
                    }
                })?;
                let k = match res {
                    Ok(k) => k,
                    Err(e) => return Err(Fail::new("mismatch|h_write|valid|Ok|Err", format!("write of {} bytes at {} on {} failed: {}", bytes.len(), h.pos, hp, e))),
                };
                if k > bytes.len() || (k == 0 && !bytes.is_empty()) {
                    return Err(Fail::new("mismatch|h_write|count|1..=len|other", format!("write of {} bytes returned {}", bytes.len(), k)));
                }
                if k > 0 {
                    let d = stream_data_mut(&mut self.model, &h.path);
                    let end = h.pos as usize + k;
                    if d.len() < end {
                        d.resize(end, 0);
                    }
                    d[h.pos as usize..end].copy_from_slice(&bytes[..k]);
                    h.pos = end as u64;
                    h.dirty = true;
                    self.stats.bump("h_write_bytes");
                    self.note_resize(len, stream_data(&self.model, &h.path).len() as u64);
                }
            }
            Op::HWriteV { data, a, b, .. } => {
                let bytes = data.bytes();
                let n = bytes.len();
                let (mut i, mut j) = ((n * *a as usize) >> 16, (n * *b as usize) >> 16);
                if i > j {
                    std::mem::swap(&mut i, &mut j);
                }
                self.trace.push(format!("h{}.write_vectored([{}, {}, {}] bytes, seed {}) [pos {} len {}]", slot, i, j - i, n - j, data.seed, h.pos, len));
                let slices = [std::io::IoSlice::new(&bytes[..i]), std::io::IoSlice::new(&bytes[i..j]), std::io::IoSlice::new(&bytes[j..])];
                let res = guard("h_write_vectored", || h.stream.write_vectored(&slices))?;
                let k = match res {
                    Ok(k) => k,
                    Err(e) => return Err(Fail::new("mismatch|h_write_vectored|valid|Ok|Err", format!("write_vectored at {} on {} failed: {}", h.pos, hp, e))),
                };
                if k > n || (k == 0 && n > 0) {
                    return Err(Fail::new("mismatch|h_write_vectored|count|1..=len|other", format!("write_vectored of {} bytes returned {}", n, k)));
                }
                if k > 0 {
                    let d = stream_data_mut(&mut self.model, &h.path);
                    let end = h.pos as usize + k;
                    if d.len() < end {
                        d.resize(end, 0);
                    }
                    d[h.pos as usize..end].copy_from_slice(&bytes[..k]);
                    h.pos = end as u64;
                    h.dirty = true;
                    self.stats.bump("h_write_bytes");
                    self.note_resize(len, stream_data(&self.model, &h.path).len() as u64);
                }
            }
            Op::HReadV { n1, n2, .. } => {
                let (n1, n2) = (*n1 as usize, *n2 as usize);
                self.trace.push(format!("h{}.read_vectored([{}, {}]) [pos {} len {}]", slot, n1, n2, h.pos, len));
                let mut b1 = vec![0u8; n1];
                let mut b2 = vec![0u8; n2];
                let res = guard("h_read_vectored", || {
                    let mut bufs = [std::io::IoSliceMut::new(&mut b1), std::io::IoSliceMut::new(&mut b2)];
                    h.stream.read_vectored(&mut bufs)
                })?;
                let k = match res {
                    Ok(k) => k,
                    Err(e) => return Err(Fail::new("mismatch|h_read_vectored|valid|Ok|Err", format!("read_vectored on {} failed: {}", hp, e))),
                };
                let avail = (len - h.pos) as usize;
                if k > (n1 + n2).min(avail) || (k == 0 && n1 + n2 > 0 && avail > 0) {
                    return Err(Fail::new("mismatch|h_read_vectored|count|1..=min(n,avail)|other", format!("read_vectored([{}, {}]) at pos {} of {} (len {}) returned {}", n1, n2, h.pos, hp, len, k)));
                }
                let mut got = b1[..k.min(n1)].to_vec();
                if k > n1 {
                    got.extend_from_slice(&b2[..k - n1]);
                }
                let data = stream_data(&self.model, &h.path);
                if got != data[h.pos as usize..h.pos as usize + k] {
                    return Err(Fail::new("mismatch|h_read_vectored|bytes|model_bytes|other_bytes", describe_diff(&format!("{} read_vectored at {}", hp, h.pos), &data[h.pos as usize..h.pos as usize + k], &got)));
                }
                h.pos += k as u64;
            }
            Op::HReadUntil { byte, .. } => {
                let data = stream_data(&self.model, &h.path).to_vec();
                let rest = &data[h.pos as usize..];
                match self.op_index % 3 {
                    1 => {
                        // BufRead::read_line: up to and including the first '\n', appended to a String;
                        // text that is not UTF-8 -> InvalidData
                        self.trace.push(format!("h{}.read_line() [pos {} len {}]", slot, h.pos, len));
                        let want = match rest.iter().position(|&b| b == b'\n') {
                            Some(i) => &rest[..=i],
                            None => rest,
                        };
                        let mut text = String::from("kept:");
                        let res = guard("h_read_line", || h.stream.read_line(&mut text))?;
                        match (std::str::from_utf8(want), res) {
                            (Ok(w), Ok(n)) => {
                                if text.strip_prefix("kept:") != Some(w) || n != w.len() {
                                    return Err(Fail::new("mismatch|h_read_line|bytes|model_bytes|other_bytes", format!("read_line on {} from {} returned {} and the string {:?} (expected the kept prefix followed by {} bytes)", hp, h.pos, n, text.chars().take(40).collect::<String>(), w.len())));
                                }
                                h.pos += n as u64;
                            }
                            (Err(_), Err(e)) if e.kind() == std::io::ErrorKind::InvalidData => {
                                // (std documents "buf is unchanged" only for read_to_string; not asserted here)
                                if !text.starts_with("kept:") {
                                    return Err(Fail::new("mismatch|h_read_line|invalid_utf8|prefix_kept|changed", format!("read_line on {} from {} failed with InvalidData and damaged what the destination string already held", hp, h.pos)));
                                }
                                // the position after the failure is unspecified: resynchronise
                                let p = guard("h_pos", || h.stream.stream_position())?.map_err(|e| Fail::new("mismatch|h_pos|valid|Ok|Err", e.to_string()))?;
                                if p < h.pos || p > len {
                                    return Err(Fail::new("mismatch|h_pos|after_failed_read_line|in_range|out_of_range", format!("position {} after failed read_line (was {}, len {})", p, h.pos, len)));
                                }
                                h.pos = p;
                            }
                            (Ok(_), Err(e)) => return Err(Fail::new("mismatch|h_read_line|valid|Ok|Err", format!("read_line on {} failed: {}", hp, e))),
                            (Err(_), Err(e)) => return Err(Fail::new("mismatch|h_read_line|invalid_utf8|InvalidData|other_err", format!("read_line on {} over non-UTF-8 bytes failed with {:?}: {}", hp, e.kind(), e))),
                            (Err(_), Ok(n)) => return Err(Fail::new("mismatch|h_read_line|invalid_utf8|Err|Ok", format!("read_line on {} over non-UTF-8 bytes returned Ok({})", hp, n))),
                        }
                    }
                    2 => {
                        self.trace.push(format!("h{}.skip_until({:#x}) [pos {} len {}]", slot, byte, h.pos, len));
                        let want = match rest.iter().position(|b| b == byte) {
                            Some(i) => i + 1,
                            None => rest.len(),
                        };
                        let res = guard("h_skip_until", || h.stream.skip_until(*byte))?;
                        match res {
                            Ok(n) if n == want => h.pos += n as u64,
                            Ok(n) => return Err(Fail::new("mismatch|h_skip_until|count|model|other", format!("skip_until({:#x}) on {} from {} skipped {} bytes, expected {}", byte, hp, h.pos, n, want))),
                            Err(e) => return Err(Fail::new("mismatch|h_skip_until|valid|Ok|Err", format!("skip_until on {} failed: {}", hp, e))),
                        }
                    }
                    _ => {
                        self.trace.push(format!("h{}.read_until({:#x}) [pos {} len {}]", slot, byte, h.pos, len));
                        let mut v = Vec::new();
                        let res = guard("h_read_until", || h.stream.read_until(*byte, &mut v))?;
                        if let Err(e) = res {
                            return Err(Fail::new("mismatch|h_read_until|valid|Ok|Err", format!("read_until on {} failed: {}", hp, e)));
                        }
                        let want = match rest.iter().position(|b| b == byte) {
                            Some(i) => &rest[..=i],
                            None => rest,
                        };
                        if v != want {
                            return Err(Fail::new("mismatch|h_read_until|bytes|model_bytes|other_bytes", describe_diff(&format!("{} read_until from {}", hp, h.pos), want, &v)));
                        }
                        h.pos += v.len() as u64;
                    }
                }
            }
            Op::HRewind { .. } => {
                self.trace.push(format!("h{}.rewind() [pos {} len {}]", slot, h.pos, len));
                let res = guard("h_rewind", || h.stream.rewind())?;
                if let Err(e) = res {
                    return Err(Fail::new("mismatch|h_rewind|valid|Ok|Err", format!("rewind on {} failed: {}", hp, e)));
                }
                h.pos = 0;
            }
            Op::HSeek { s, .. } => {
                let sf = resolve_seek(s, len, h.pos);
                self.trace.push(format!("h{}.seek({:?}) [pos {} len {}]", slot, sf, h.pos, len));
                // every third relative seek goes through Seek::seek_relative (same contract,
                // the position is queried afterwards)
                let res = match sf {
                    SeekFrom::Current(off) if self.op_index % 3 == 0 => guard("h_seek_relative", || h.stream.seek_relative(off).and_then(|_| h.stream.stream_position()))?,
                    _ => guard("h_seek", || h.stream.seek(sf))?,
                };
                match (model_seek(sf, len, h.pos), res) {
                    (Some(exp), Ok(got)) => {
                        if exp != got {
                            return Err(Fail::new("mismatch|h_seek|in_range|model_pos|other", format!("seek({:?}) returned {}, expected {}", sf, got, exp)));
                        }
                        h.pos = exp;
                    }
                    (None, Err(e)) => {
                        if errkind(&e) != ErrKind::InvalidInput {
                            return Err(Fail::new("mismatch|h_seek|out_of_range|InvalidInput|other_err", format!("seek({:?}) failed with {:?}: {}", sf, e.kind(), e)));
                        }
                        self.stats.refusals += 1;
                        self.stats.bump("refused:h_seek:out_of_range");
                    }
                    (Some(exp), Err(e)) => {
                        return Err(Fail::new("mismatch|h_seek|in_range|Ok|Err", format!("seek({:?}) (expected position {}) failed: {}", sf, exp, e)));
                    }
                    (None, Ok(got)) => {
                        return Err(Fail::new("mismatch|h_seek|out_of_range|InvalidInput|Ok", format!("seek({:?}) outside [0,{}] returned Ok({})", sf, len, got)));
                    }
                }
            }
            Op::HSetLen { len: l, .. } => {
                let new_len = resolve_len(l, len);
                self.trace.push(format!("h{}.set_len({}) [pos {} len {}]", slot, new_len, h.pos, len));
                let res = guard("h_set_len", || h.stream.set_len(new_len))?;
                if let Err(e) = res {
                    return Err(Fail::new("mismatch|h_set_len|valid|Ok|Err", format!("set_len({}) on {} failed: {}", new_len, hp, e)));
                }
                stream_data_mut(&mut self.model, &h.path).resize(new_len as usize, 0);
                h.pos = h.pos.min(new_len);
                if new_len != len {
                    h.dirty = false;
                }
                self.note_resize(len, new_len);
                if self.oracles.grow_check && new_len > len {
                    // same handle: read the grown range back
                    let keep = h.pos;
                    let mut got = vec![0u8; (new_len - len) as usize];
                    let res = guard("h_read_grown", || h.stream.seek(SeekFrom::Start(len)).and_then(|_| h.stream.read_exact(&mut got)).and_then(|_| h.stream.seek(SeekFrom::Start(keep))))?;
                    if let Err(e) = res {
                        return Err(Fail::new("mismatch|grow|same_handle|Ok|Err", format!("reading grown range failed: {}", e)));
                    }
                    if let Some(i) = got.iter().position(|&b| b != 0) {
                        return Err(Fail::new("grow|same_handle|nonzero", format!("after set_len {} -> {} on {}, byte {} reads {:#x} through the same handle", len, new_len, hp, len as usize + i, got[i])));
                    }
                    let path = h.path.clone();
                    self.grow_check(&path, len, new_len)?;
                }
            }
            Op::HFlush { .. } => {
                self.trace.push(format!("h{}.flush()", slot));
                let res = guard("h_flush", || h.stream.flush())?;
                if let Err(e) = res {
                    return Err(Fail::new("mismatch|h_flush|valid|Ok|Err", format!("flush on {} failed: {}", hp, e)));
                }
                h.dirty = false;
            }
            Op::HLen { .. } => {
                let got = guard("h_len", || h.stream.len())?;
                self.trace.push(format!("h{}.len() -> {}", slot, got));
                if got != len {
                    return Err(Fail::new("mismatch|h_len|valid|model_len|other", format!("len() of {} is {}, expected {}", hp, got, len)));
                }
                let empty = guard("h_is_empty", || h.stream.is_empty())?;
                if empty != (len == 0) {
                    return Err(Fail::new("mismatch|h_is_empty|valid|model_len|other", format!("is_empty() of {} is {}, but the stream has {} bytes", hp, empty, len)));
                }
            }
            Op::HPos { .. } => {
                let got = guard("h_pos", || h.stream.stream_position())?;
                self.trace.push(format!("h{}.stream_position() -> {:?}", slot, got));
                match got {
                    Ok(p) if p == h.pos => {}
                    other => return Err(Fail::new("mismatch|h_pos|valid|model_pos|other", format!("stream_position() of {} is {:?}, expected {}", hp, other, h.pos))),
                }
            }
            Op::HReadToEnd { .. } if self.op_index % 4 == 3 => {
                // Read::read_to_string: appends to a String; non-UTF-8 content -> InvalidData, String unchanged
                self.trace.push(format!("h{}.read_to_string() [pos {} len {}]", slot, h.pos, len));
                let data = stream_data(&self.model, &h.path).to_vec();
                let rest = &data[h.pos as usize..];
                let mut text = String::from("kept:");
                let res = guard("h_read_to_string", || h.stream.read_to_string(&mut text))?;
                match (std::str::from_utf8(rest), res) {
                    (Ok(w), Ok(n)) => {
                        if text.strip_prefix("kept:") != Some(w) || n != w.len() {
                            return Err(Fail::new("mismatch|h_read_to_string|bytes|model_bytes|other_bytes", format!("read_to_string on {} from {} returned {} and a string of {} bytes (expected the kept prefix followed by {} bytes)", hp, h.pos, n, text.len(), w.len())));
                        }
                        h.pos = len;
                    }
                    (Err(_), Err(e)) if e.kind() == std::io::ErrorKind::InvalidData => {
                        if text != "kept:" {
                            return Err(Fail::new("mismatch|h_read_to_string|invalid_utf8|string_unchanged|changed", format!("read_to_string on {} from {} failed with InvalidData but changed the destination string", hp, h.pos)));
                        }
                        let p = guard("h_pos", || h.stream.stream_position())?.map_err(|e| Fail::new("mismatch|h_pos|valid|Ok|Err", e.to_string()))?;
                        if p < h.pos || p > len {
                            return Err(Fail::new("mismatch|h_pos|after_failed_read_to_string|in_range|out_of_range", format!("position {} after failed read_to_string (was {}, len {})", p, h.pos, len)));
                        }
                        h.pos = p;
                    }
                    (Ok(_), Err(e)) => return Err(Fail::new("mismatch|h_read_to_string|valid|Ok|Err", format!("read_to_string on {} failed: {}", hp, e))),
                    (Err(_), Err(e)) => return Err(Fail::new("mismatch|h_read_to_string|invalid_utf8|InvalidData|other_err", format!("read_to_string on {} over non-UTF-8 bytes failed with {:?}: {}", hp, e.kind(), e))),
                    (Err(_), Ok(n)) => return Err(Fail::new("mismatch|h_read_to_string|invalid_utf8|Err|Ok", format!("read_to_string on {} over non-UTF-8 bytes returned Ok({})", hp, n))),
                }
            }
            Op::HReadToEnd { .. } => {
                self.trace.push(format!("h{}.read_to_end() [pos {} len {}]", slot, h.pos, len));
                // read_to_end appends: the destination may already hold bytes (as with a Cursor)
                let k = [0usize, 0, 1, 7, 300][self.op_index % 5];
                let marker: Vec<u8> = (0..k).map(|i| 0xC0 ^ (i as u8)).collect();
                let mut v = marker.clone();
                let res = guard("h_read_to_end", || h.stream.read_to_end(&mut v))?;
                let n = match res {
                    Err(e) => return Err(Fail::new("mismatch|h_read_to_end|valid|Ok|Err", format!("read_to_end on {} failed: {}", hp, e))),
                    Ok(n) => n,
                };
                let data = stream_data(&self.model, &h.path);
                if v.len() < k || v[..k] != marker[..] {
                    return Err(Fail::new("mismatch|h_read_to_end|destination_prefix|kept|changed", format!("read_to_end on {} from {} into a vector that already held {} bytes changed those bytes (vector length afterwards {}, expected {})", hp, h.pos, k, v.len(), k + data.len() - h.pos as usize)));
                }
                let v = v.split_off(k);
                if v != data[h.pos as usize..] {
                    return Err(Fail::new("mismatch|h_read_to_end|bytes|model_bytes|other_bytes", describe_diff(&format!("{} read_to_end from {}", hp, h.pos), &data[h.pos as usize..], &v)));
                }
                if n != v.len() {
                    return Err(Fail::new("mismatch|h_read_to_end|count|appended|other", format!("read_to_end on {} appended {} bytes but returned {}", hp, v.len(), n)));
                }
                h.pos = len;
            }
            _ => unreachable!(),
        }
        Ok(())
    }

    // ------------------------------------------------------------------ oracles

    /// Dump of a library object: walk + bytes of every stream.
    pub fn dump_of(c: &mut Cfb, what: &str) -> Result<(Vec<ObsEntry>, Vec<(String, Result<Vec<u8>, String>)>), Fail> {
        let entries = guard("walk", || c.walk().map(|e| obs_entry(&e)).collect::<Vec<_>>())?;
        let mut streams = Vec::new();
        for e in entries.iter().filter(|e| e.is_stream) {
            let p = e.path.clone();
            let r = guard("read_all", || -> std::io::Result<Vec<u8>> {
                let mut s = c.open_stream(&p)?;
                let mut v = Vec::new();
                s.read_to_end(&mut v)?;
                Ok(v)
            })?;
            streams.push((p, r.map_err(|e| format!("{} ({})", e, what))));
        }
        Ok((entries, streams))
    }

    /// Full comparison of a library object with the model. Streams under a dirty handle
    /// are compared by name/kind only.
    pub fn compare_dump(&self, c: &mut Cfb, what: &str) -> Result<(), Fail> {
        let (entries, streams) = Self::dump_of(c, what)?;
        let exp = self.masked_walk(&[]);
        cmp_entries(&exp, &entries).map_err(|m| Fail::new(format!("mismatch|dump|{}|model_tree|other", what), format!("full dump ({}): {}", what, m)))?;
        for (p, got) in streams {
            let comps: Vec<String> = p.split('/').filter(|c| !c.is_empty()).map(|s| s.to_string()).collect();
            if let Some(hs) = self.handle_on(&comps) {
                if self.handles[hs].as_ref().unwrap().dirty {
                    continue;
                }
            }
            let exp = stream_data(&self.model, &comps);
            match got {
                Err(e) => return Err(Fail::new(format!("mismatch|dump|{}|stream_readable|Err", what), format!("full dump ({}): reading {:?} failed: {}", what, p, e))),
                Ok(v) => {
                    if &v != exp {
                        return Err(Fail::new(format!("mismatch|dump|{}|model_bytes|other_bytes", what), format!("full dump ({}): {}", what, describe_diff(&p, exp, &v))));
                    }
                }
            }
        }
        Ok(())
    }

    pub fn check_live_dump(&mut self) -> Result<(), Fail> {
        let mut c = self.cfb.take().unwrap();
        let r = self.compare_dump(&mut c, "live");
        self.cfb = Some(c);
        r
    }

    /// Opens the current byte image as it is (no flush) and compares it with the model.
    pub fn check_reopen(&mut self, strict: bool, what: &str) -> Result<Cfb, Fail> {
        let bytes = self.snapshot();
        let io = Io::from_bytes(bytes);
        let mb = self.max_buf;
        let res = guard("open", || open_options(mb, strict).open_with(io))?;
        let mut c = match res {
            Ok(c) => c,
            Err(e) => {
                return Err(Fail::new(
                    format!("mismatch|{}|{}|Ok|Err|{}", if strict { "open_strict" } else { "open" }, what, normalise_msg(&e.to_string())),
                    format!("{} of the byte image ({}) failed: {}", if strict { "open_strict" } else { "open" }, what, e),
                ))
            }
        };
        self.compare_dump(&mut c, &format!("{}_{}", what, if strict { "strict" } else { "permissive" }))?;
        Ok(c)
    }

    /// The Reopen op: close handles, reopen from the raw bytes, continue on the new object.
    pub fn reopen(&mut self, strict: bool, what: &str) -> Result<(), Fail> {
        let strict = strict && !self.oracles.no_strict;
        self.close_all_handles()?;
        self.trace.push(format!("reopen(strict={}) [{}]", strict, what));
        let io = if let Some(p) = self.oracles.file_path.clone() {
            // real file: drop the live object (closes its handle), open the path again
            self.cfb = None;
            let f = std::fs::OpenOptions::new().read(true).write(true).open(&p).map_err(|e| Fail::new("harness|file", e.to_string()))?;
            Io::from_file(f, p)
        } else {
            let mut io = Io::from_bytes(self.snapshot());
            if let Some(c) = &self.ctl {
                io = io.with_ctl(c.clone());
            }
            io
        };
        let peer = io.peer();
        let mb = self.max_buf;
        let res = guard("open", || open_options(mb, strict).open_with(io))?;
        match res {
            Ok(c) => {
                // the old object is dropped only now; it must not write to the old buffer
                // in a way that matters (it has its own copy)
                self.cfb = Some(c);
                self.io = peer;
                self.stats.bump("reopen");
                Ok(())
            }
            Err(e) => Err(Fail::new(
                format!("mismatch|{}|{}|Ok|Err|{}", if strict { "open_strict" } else { "open" }, what, normalise_msg(&e.to_string())),
                format!("{} of own image failed: {}", if strict { "open_strict" } else { "open" }, e),
            )),
        }
    }

    /// C08: after a growing set_len (stream has no dirty handle state), the grown range
    /// reads zero through a fresh handle and after reopening the raw bytes.
    pub fn grow_check(&mut self, names: &[String], old: u64, new: u64) -> Result<(), Fail> {
        let p = path_string(names);
        let read_range = |c: &mut Cfb| -> std::io::Result<Vec<u8>> {
            let mut s = c.open_stream(&p)?;
            s.seek(SeekFrom::Start(old))?;
            let mut v = vec![0u8; (new - old) as usize];
            s.read_exact(&mut v)?;
            Ok(v)
        };
        let got = guard("grow_fresh_handle", || read_range(self.lib()))?.map_err(|e| Fail::new("mismatch|grow|fresh_handle|Ok|Err", format!("reading grown range of {} failed: {}", p, e)))?;
        if let Some(i) = got.iter().position(|&b| b != 0) {
            return Err(Fail::new("grow|fresh_handle|nonzero", format!("after set_len {} -> {} on {}, byte {} reads {:#x} through a fresh handle ({} non-zero bytes)", old, new, p, old as usize + i, got[i], got.iter().filter(|&&b| b != 0).count())));
        }
        if !self.any_dirty() {
            let io = Io::from_bytes(self.snapshot());
            let mb = self.max_buf;
            let mut c = guard("open", || open_options(mb, false).open_with(io))?.map_err(|e| Fail::new("mismatch|open|after_grow|Ok|Err", format!("open after grow failed: {}", e)))?;
            let got = guard("grow_reopen", || read_range(&mut c))?.map_err(|e| Fail::new("mismatch|grow|reopen|Ok|Err", format!("reading grown range of {} after reopen failed: {}", p, e)))?;
            if let Some(i) = got.iter().position(|&b| b != 0) {
                return Err(Fail::new("grow|reopen|nonzero", format!("after set_len {} -> {} on {}, byte {} reads {:#x} after reopen", old, new, p, old as usize + i, got[i])));
            }
        }
        self.stats.bump("grow_checked");
        if self.oracles.shadow_nonzero && !self.any_dirty() {
            if let Ok(pp) = crate::refparse::parse(&self.snapshot()) {
                if let Some(id) = pp.find_id(names) {
                    let ext = pp.stream_extents(id, old, new);
                    let stale = ext.iter().any(|&(off, len)| (off..off + len).any(|i| self.ever_nonzero.get(i).copied().unwrap_or(false)));
                    if stale {
                        self.stats.bump("grow_over_stale");
                    }
                }
            }
        }
        Ok(())
    }
}

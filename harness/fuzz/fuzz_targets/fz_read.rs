#![no_main]
// C05: any byte string, both open modes, read-only script; oracle inside the target.
use libfuzzer_sys::fuzz_target;
mod common;

#[global_allocator]
static GLOBAL: cfbverif::memtrack::Counting = cfbverif::memtrack::Counting;

fuzz_target!(|data: &[u8]| {
    common::init();
    let (img, tail) = common::split(data);
    let script = common::script(tail, false);
    let mut rep = cfbverif::runner::CaseReport::default();
    if let Err(f) = cfbverif::props::c05::read_only_check(img, &script, &mut rep) {
        let known = cfbverif::runner::Known::load();
        if known.lookup("C05", &f.key).is_none() {
            common::violation("C05", &f.key, &f.detail);
        }
    }
});

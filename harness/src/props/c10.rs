//! C10 - rejected operations have no effect.

use crate::engine::{Oracles, Stats};
use crate::gen::{case_strategy, Profile};
use crate::ops::*;
use crate::props::hist::history_report;
use crate::runner::*;
use proptest::prelude::*;
use serde_json::Value;

pub fn oracles() -> Oracles {
    Oracles { bytes_on_refusal: true, dump_every: 5, final_reopen: true, ..Oracles::default() }
}

pub fn profile(tier: Tier) -> Profile {
    let mut p = Profile::c01();
    p.bad = 6;
    p.fancy = 2;
    p.handles = 15;
    p.max_size = 6000;
    p.max_ops = if tier == Tier::Thorough { 120 } else { 50 };
    p.max_bufs = vec![None, Some(1024)];
    p
}

fn nontrivial(s: &Stats, _c: &Case) -> bool {
    s.has("refusal_mid_history")
}

pub fn report(c: &Case) -> CaseReport {
    history_report(c, oracles(), nontrivial)
}

pub fn strategy(tier: Tier) -> BoxedStrategy<Case> {
    // a share of the histories starts on a foreign file that carries tolerated deviations
    // (non-zero CLSID/times on streams, start/size on storages, wrong root name, ...): a
    // refused call must not "repair" them either
    let devs = proptest::collection::vec((any::<u8>(), any::<u16>()), 1..4);
    (case_strategy(&profile(tier), crate::synth::AVAILABLE), proptest::option::weighted(0.2, (any::<u64>(), devs)))
        .prop_map(|(mut c, dv)| {
            if let Some((seed, devs)) = dv {
                c.start = Start::Deviant { seed, devs };
            }
            c
        })
        .boxed()
}

fn worker(ctx: &Ctx) -> WorkerResult {
    run_worker(ctx, strategy(ctx.tier), report)
}

fn solo(v: &Value) -> Result<CaseReport, String> {
    run_solo(v, report)
}

pub fn def() -> PropDef {
    PropDef {
        id: "C10",
        level: "exploration",
        rule: "histories with ~50% wrong-kind / missing / malformed / invalid-name paths and out-of-range seeks on clean and dirty handles; whenever a call returns NotFound, AlreadyExists or InvalidInput the backend bytes before and after must be identical and the model is left unchanged, so every later result (and the dumps every 5 ops and at the end, and the final reopen) is compared as if the call had not been made. Non-trivial = a refusal on a file with >=3 entries after >=1 successful mutation and followed by >=1 successful mutation (per-reason counts in classes); distinct = distinct case JSON. Thorough tier: libFuzzer campaign fz_hist over byte-encoded histories (16-byte record per op) with this same runner and oracle.",
        assumptions: &["abstract model as in C01; refusal sets per DESIGN.md 3.1"],
        quick_cases: 2000,
        thorough_cases: 25000,
        worker,
        solo,
        hang_cpu_s: 30.0,
        extra: None,
        confirm_known: false,
    }
}

//! Model-less interpreter for damaged files (C05 read-only scripts, C11 mutation
//! histories): objects are chosen from what the library itself lists; every call must
//! return (Ok or Err) without panicking.  Results are otherwise unconstrained.

use crate::engine::Cfb;
use crate::ops::{pattern, pick, DataSpec};
use crate::util::*;
use serde::{Deserialize, Serialize};
use std::io::{BufRead, Read, Seek, SeekFrom, Write};

#[derive(Clone, Debug, PartialEq, Eq, Serialize, Deserialize)]
pub enum HOp {
    Read(u32),
    ReadExact(u32),
    FillConsume(u16),
    ReadToEnd,
    SeekStart(u64),
    SeekEnd(i64),
    SeekCur(i64),
    /// seek to len*frac>>16 + delta
    SeekFrac(u16, i16),
    Len,
    Pos,
    Write(DataSpec),
    WriteAll(DataSpec),
    SetLen(u64),
    /// set_len(len + delta)
    SetLenRel(i32),
    Flush,
}

#[derive(Clone, Debug, PartialEq, Eq, Serialize, Deserialize)]
pub enum BOp {
    Walk,
    ListRoot,
    /// per listed entry: entry/exists/is_stream/is_storage (+ read_storage/walk_storage)
    QueryAll,
    QueryPath(String),
    /// open the sel-th listed stream and run the handle script
    Stream { sel: u16, script: Vec<HOp> },
    /// open every listed stream (up to a cap) and run the script on each
    AllStreams { script: Vec<HOp> },
    /// open the sel-th listed stream; start a walk() and a read_root_storage() iterator, advance
    /// them k steps, use the handle and a lookup while both iterators are alive, advance again
    IterWhileStream { sel: u16, k: u8, script: Vec<HOp> },
    /// open a handle, use it, then remove (0) / overwrite (1) the stream or remove its parent
    /// storage recursively (2) while the handle is still open, and keep using the handle
    StaleHandle { sel: u16, pre: Vec<HOp>, how: u8, post: Vec<HOp> },
    // ---- mutations (C11)
    CreateStream { parent: u16, name: u8, data: DataSpec },
    CreateStorage { parent: u16, name: u8 },
    RemoveStream { sel: u16 },
    RemoveStorage { sel: u16 },
    RemoveStorageAll { sel: u16 },
    SetState { sel: u16, bits: u32 },
    SetClsid { sel: u16 },
    Touch { sel: u16 },
    Flush,
}

impl BOp {
    pub fn is_mutation(&self) -> bool {
        match self {
            BOp::CreateStream { .. } | BOp::CreateStorage { .. } | BOp::RemoveStream { .. } | BOp::RemoveStorage { .. } | BOp::RemoveStorageAll { .. } | BOp::SetState { .. } | BOp::SetClsid { .. } | BOp::Touch { .. } => true,
            BOp::StaleHandle { .. } => true,
            BOp::Stream { script, .. } | BOp::AllStreams { script } | BOp::IterWhileStream { script, .. } => script.iter().any(|h| matches!(h, HOp::Write(_) | HOp::WriteAll(_) | HOp::SetLen(_) | HOp::SetLenRel(_))),
            _ => false,
        }
    }
}

const NEW_NAMES: &[&str] = &["new a", "NEW B", "n", "zzzzzzzzzzzzzzzzzzzzzzzzzzzzzzz", "Root Entry", "\u{10000}x", "ä"];

#[derive(Default, Debug, Clone)]
pub struct BlindStats {
    pub calls: u64,
    pub errs: u64,
    pub mutating_calls: u64,
    pub streams_opened: u64,
    pub bytes_read: u64,
}

pub fn listing(c: &Cfb, cap: usize) -> Result<Vec<(String, bool)>, Fail> {
    guard("walk", || c.walk().take(cap).map(|e| (e.path().to_string_lossy().to_string(), e.is_stream())).collect::<Vec<_>>())
}

pub fn run_handle(s: &mut cfb::Stream<crate::backend::Io>, script: &[HOp], st: &mut BlindStats) -> Result<(), Fail> {
    for h in script {
        st.calls += 1;
        let ok = match h {
            HOp::Read(n) => {
                let mut buf = vec![0u8; (*n as usize).min(1 << 20)];
                let r = guard("h_read", || s.read(&mut buf))?;
                if let Ok(k) = &r {
                    st.bytes_read += *k as u64;
                }
                r.is_ok()
            }
            HOp::ReadExact(n) => {
                let mut buf = vec![0u8; (*n as usize).min(1 << 20)];
                guard("h_read_exact", || s.read_exact(&mut buf))?.is_ok()
            }
            HOp::FillConsume(frac) => guard("h_fill_buf", || -> std::io::Result<()> {
                let l = s.fill_buf()?.len();
                let take = if l == 0 { 0 } else { (((l as u64 * (*frac as u64 + 1) + 65535) >> 16) as usize).min(l) };
                s.consume(take);
                Ok(())
            })?
            .is_ok(),
            HOp::ReadToEnd => {
                // bounded: a damaged entry may claim an enormous size
                let mut total = 0u64;
                let mut buf = vec![0u8; 65536];
                let mut ok = true;
                for _ in 0..64 {
                    match guard("h_read", || s.read(&mut buf))? {
                        Ok(0) => break,
                        Ok(k) => total += k as u64,
                        Err(_) => {
                            ok = false;
                            break;
                        }
                    }
                }
                st.bytes_read += total;
                ok
            }
            HOp::SeekStart(v) => guard("h_seek", || s.seek(SeekFrom::Start(*v)))?.is_ok(),
            HOp::SeekEnd(v) => guard("h_seek", || s.seek(SeekFrom::End(*v)))?.is_ok(),
            HOp::SeekCur(v) => guard("h_seek", || s.seek(SeekFrom::Current(*v)))?.is_ok(),
            HOp::SeekFrac(frac, d) => {
                let len = guard("h_len", || s.len())?;
                let t = ((len as u128 * (*frac as u128 + 1)) >> 16) as i128 + *d as i128;
                let t = t.clamp(0, u64::MAX as i128) as u64;
                guard("h_seek", || s.seek(SeekFrom::Start(t)))?.is_ok()
            }
            HOp::Len => {
                guard("h_len", || s.len())?;
                true
            }
            HOp::Pos => guard("h_pos", || s.stream_position())?.is_ok(),
            HOp::Write(d) => {
                st.mutating_calls += 1;
                let b = pattern(d.seed, 0, (d.len as usize).min(1 << 17));
                guard("h_write", || s.write(&b))?.is_ok()
            }
            HOp::WriteAll(d) => {
                st.mutating_calls += 1;
                let b = pattern(d.seed, 0, (d.len as usize).min(1 << 17));
                guard("h_write_all", || s.write_all(&b))?.is_ok()
            }
            HOp::SetLen(n) => {
                st.mutating_calls += 1;
                // sizes far beyond what the backend holds only probe the arithmetic
                guard("h_set_len", || s.set_len(*n))?.is_ok()
            }
            HOp::SetLenRel(d) => {
                st.mutating_calls += 1;
                let len = guard("h_len", || s.len())?;
                let n = (len as i128 + *d as i128).clamp(0, u64::MAX as i128) as u64;
                guard("h_set_len", || s.set_len(n))?.is_ok()
            }
            HOp::Flush => guard("h_flush", || s.flush())?.is_ok(),
        };
        if !ok {
            st.errs += 1;
        }
        if std::env::var("VERIF_DEBUG").is_ok() {
            eprintln!("   {:?} -> ok={} len={} pos={:?}", h, ok, s.len(), s.stream_position().ok());
        }
    }
    Ok(())
}

/// Runs a blind script on an opened object.
pub fn run_blind(c: &mut Cfb, script: &[BOp], st: &mut BlindStats, trace: &mut Vec<String>) -> Result<(), Fail> {
    for op in script {
        trace.push(format!("{:?}", op).chars().take(200).collect());
        if std::env::var("VERIF_DEBUG").is_ok() {
            eprintln!("BOP {}", trace.last().unwrap());
        }
        st.calls += 1;
        match op {
            BOp::Walk => {
                listing(c, 100_000)?;
            }
            BOp::ListRoot => {
                guard("read_root_storage", || c.read_root_storage().take(100_000).count())?;
            }
            BOp::QueryAll => {
                let l = listing(c, 300)?;
                for (p, is_stream) in l.iter() {
                    st.calls += 4;
                    // every accessor and the Debug text of the entry (damaged timestamps, sizes)
                    guard("entry", || {
                        c.entry(p)
                            .map(|e| {
                                let _ = (e.name().len(), e.path().as_os_str().len(), e.is_root(), e.is_stream(), e.is_storage(), e.len(), e.is_empty(), *e.clsid(), e.state_bits(), e.created(), e.modified());
                                format!("{:?}", e).len()
                            })
                            .is_ok()
                    })?;
                    guard("exists", || c.exists(p))?;
                    guard("is_stream", || c.is_stream(p))?;
                    guard("is_storage", || c.is_storage(p))?;
                    if !*is_stream {
                        guard("read_storage", || c.read_storage(p).map(|it| it.take(10_000).count()).is_ok())?;
                        guard("walk_storage", || c.walk_storage(p).map(|it| it.take(10_000).count()).is_ok())?;
                    }
                }
            }
            BOp::QueryPath(p) => {
                guard("entry", || c.entry(p).is_ok())?;
                guard("exists", || c.exists(p))?;
                guard("read_storage", || c.read_storage(p).map(|it| it.take(10_000).count()).is_ok())?;
                guard("walk_storage", || c.walk_storage(p).map(|it| it.take(10_000).count()).is_ok())?;
                guard("open_stream", || c.open_stream(p).is_ok())?;
            }
            BOp::Stream { sel, script } => {
                let l: Vec<String> = listing(c, 2000)?.into_iter().filter(|x| x.1).map(|x| x.0).collect();
                if l.is_empty() {
                    continue;
                }
                let p = &l[pick(*sel, l.len())];
                match guard("open_stream", || c.open_stream(p))? {
                    Ok(mut s) => {
                        st.streams_opened += 1;
                        let r = run_handle(&mut s, script, st);
                        let d = guard("h_drop", move || drop(s));
                        r?;
                        d?;
                    }
                    Err(_) => st.errs += 1,
                }
            }
            BOp::IterWhileStream { sel, k, script } => {
                let l: Vec<String> = listing(c, 2000)?.into_iter().filter(|x| x.1).map(|x| x.0).collect();
                if l.is_empty() {
                    continue;
                }
                let p = l[pick(*sel, l.len())].clone();
                if let Ok(mut s) = guard("open_stream", || c.open_stream(&p))? {
                    st.streams_opened += 1;
                    let cr: &Cfb = &*c;
                    let r = (|| -> Result<(), Fail> {
                        let mut it = guard("walk", || cr.walk())?;
                        let mut it2 = guard("read_root_storage", || cr.read_root_storage())?;
                        for _ in 0..*k {
                            if guard("iter_next", || it.next().is_none())? {
                                break;
                            }
                        }
                        guard("iter_next", || it2.next().is_none())?;
                        run_handle(&mut s, script, st)?;
                        guard("entry", || cr.entry(&p).is_ok())?;
                        guard("exists", || cr.exists("/"))?;
                        for _ in 0..(*k as usize + 3) {
                            if guard("iter_next", || it.next().is_none())? {
                                break;
                            }
                        }
                        guard("iter_next", || it2.next().is_none())?;
                        run_handle(&mut s, &[HOp::Read(10), HOp::SeekCur(0), HOp::Len], st)?;
                        guard("iter_drop", move || {
                            drop(it);
                            drop(it2);
                        })?;
                        Ok(())
                    })();
                    let d = guard("h_drop", move || drop(s));
                    r?;
                    d?;
                }
            }
            BOp::StaleHandle { sel, pre, how, post } => {
                st.mutating_calls += 1;
                let l: Vec<String> = listing(c, 2000)?.into_iter().filter(|x| x.1).map(|x| x.0).collect();
                if l.is_empty() {
                    continue;
                }
                let p = l[pick(*sel, l.len())].clone();
                if let Ok(mut s) = guard("open_stream", || c.open_stream(&p))? {
                    st.streams_opened += 1;
                    let r = run_handle(&mut s, pre, st).and_then(|_| {
                        match how % 3 {
                            0 => guard("remove_stream", || c.remove_stream(&p).is_ok())?,
                            1 => guard("create_stream", || c.create_stream(&p).is_ok())?,
                            _ => {
                                let parent = std::path::Path::new(&p).parent().map(|x| x.to_string_lossy().to_string()).unwrap_or_else(|| "/".into());
                                guard("remove_storage_all", || c.remove_storage_all(&parent).is_ok())?
                            }
                        };
                        run_handle(&mut s, post, st)
                    });
                    let d = guard("h_drop", move || drop(s));
                    r?;
                    d?;
                }
            }
            BOp::AllStreams { script } => {
                let l: Vec<String> = listing(c, 2000)?.into_iter().filter(|x| x.1).map(|x| x.0).take(24).collect();
                for p in l.iter() {
                    match guard("open_stream", || c.open_stream(p))? {
                        Ok(mut s) => {
                            st.streams_opened += 1;
                            let r = run_handle(&mut s, script, st);
                            let d = guard("h_drop", move || drop(s));
                            r?;
                            d?;
                        }
                        Err(_) => st.errs += 1,
                    }
                }
            }
            BOp::CreateStream { parent, name, data } => {
                st.mutating_calls += 1;
                let mut l: Vec<String> = listing(c, 2000)?.into_iter().filter(|x| !x.1).map(|x| x.0).collect();
                if l.is_empty() {
                    l.push("/".into());
                }
                let p = format!("{}/{}", l[pick(*parent, l.len())].trim_end_matches('/'), NEW_NAMES[*name as usize % NEW_NAMES.len()]);
                let b = data.bytes();
                let r = guard("create_stream", || -> std::io::Result<()> {
                    let mut s = c.create_stream(&p)?;
                    s.write_all(&b)?;
                    s.flush()
                })?;
                if r.is_err() {
                    st.errs += 1;
                }
            }
            BOp::CreateStorage { parent, name } => {
                st.mutating_calls += 1;
                let mut l: Vec<String> = listing(c, 2000)?.into_iter().filter(|x| !x.1).map(|x| x.0).collect();
                if l.is_empty() {
                    l.push("/".into());
                }
                let p = format!("{}/{}", l[pick(*parent, l.len())].trim_end_matches('/'), NEW_NAMES[*name as usize % NEW_NAMES.len()]);
                if guard("create_storage", || c.create_storage(&p))?.is_err() {
                    st.errs += 1;
                }
            }
            BOp::RemoveStream { sel } | BOp::RemoveStorage { sel } | BOp::RemoveStorageAll { sel } | BOp::SetState { sel, .. } | BOp::SetClsid { sel } | BOp::Touch { sel } => {
                st.mutating_calls += 1;
                let want_stream = matches!(op, BOp::RemoveStream { .. });
                let any = matches!(op, BOp::SetState { .. } | BOp::Touch { .. });
                let l: Vec<String> = listing(c, 2000)?.into_iter().filter(|x| any || x.1 == want_stream).map(|x| x.0).collect();
                if l.is_empty() {
                    continue;
                }
                let p = l[pick(*sel, l.len())].clone();
                let r = match op {
                    BOp::RemoveStream { .. } => guard("remove_stream", || c.remove_stream(&p))?,
                    BOp::RemoveStorage { .. } => guard("remove_storage", || c.remove_storage(&p))?,
                    BOp::RemoveStorageAll { .. } => guard("remove_storage_all", || c.remove_storage_all(&p))?,
                    BOp::SetState { bits, .. } => guard("set_state_bits", || c.set_state_bits(&p, *bits))?,
                    BOp::SetClsid { .. } => guard("set_storage_clsid", || c.set_storage_clsid(&p, uuid::Uuid::from_bytes([7; 16])))?,
                    _ => guard("touch", || c.touch(&p))?,
                };
                if r.is_err() {
                    st.errs += 1;
                }
            }
            BOp::Flush => {
                guard("flush", || c.flush())?.ok();
            }
        }
    }
    Ok(())
}

/// Handles that outlive their `CompoundFile`: a handle is opened on up to six listed streams
/// (small buffer, so that longer streams need refills), reads one window, the compound file is
/// dropped, and the handles go on being used. Every call must return Ok or Err.
pub fn orphaned_handles(bytes: &[u8], strict: bool, mutating: bool, st: &mut BlindStats, trace: &mut Vec<String>) -> Result<(), Fail> {
    let io = crate::backend::Io::from_bytes(bytes.to_vec());
    let c = match guard("open", || crate::engine::open_options(Some(1024), strict).open_with(io))? {
        Ok(c) => c,
        Err(_) => return Ok(()),
    };
    let mut c = c;
    let streams: Vec<String> = listing(&c, 400)?.into_iter().filter(|x| x.1).map(|x| x.0).take(6).collect();
    let mut hs = Vec::new();
    for p in streams.iter() {
        if let Ok(mut s) = guard("open_stream", || c.open_stream(p))? {
            run_handle(&mut s, &[HOp::Read(1024)], st)?;
            hs.push(s);
        }
    }
    if hs.is_empty() {
        return Ok(());
    }
    trace.push(format!("(compound file dropped with {} handles alive)", hs.len()));
    guard("drop_compound_file", move || drop(c))?;
    let script = [HOp::Read(700), HOp::Read(3000), HOp::SeekCur(0), HOp::FillConsume(100), HOp::Pos, HOp::SeekCur(-1), HOp::Len, HOp::ReadToEnd, HOp::SeekCur(0), HOp::SeekEnd(0), HOp::SeekStart(0), HOp::Read(10)];
    let wscript = [
        HOp::Write(DataSpec { len: 100, seed: 1 }),
        HOp::Flush,
        HOp::SeekCur(0),
        HOp::WriteAll(DataSpec { len: 3000, seed: 2 }),
        HOp::SetLenRel(500),
        HOp::Pos,
        HOp::SetLen(10),
        HOp::Read(50),
        HOp::SeekCur(0),
        HOp::Flush,
    ];
    for s in hs.iter_mut() {
        run_handle(s, &script, st)?;
        if mutating {
            run_handle(s, &wscript, st)?;
        }
    }
    for s in hs {
        guard("h_drop", move || drop(s))?;
    }
    Ok(())
}

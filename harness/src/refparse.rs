//! Independent MS-CFB parser and structural checker (DESIGN 3.3).  Works on `&[u8]`,
//! written from the specification; shares no code, constants or helpers with `cfb`.

use crate::names::cfb_cmp;
use std::cmp::Ordering;
use std::collections::{BTreeMap, HashMap, HashSet};

pub const FREESECT: u32 = 0xFFFF_FFFF;
pub const ENDOFCHAIN: u32 = 0xFFFF_FFFE;
pub const FATSECT: u32 = 0xFFFF_FFFD;
pub const DIFSECT: u32 = 0xFFFF_FFFC;
pub const MAXREGSECT: u32 = 0xFFFF_FFFA;
pub const NOSTREAM: u32 = 0xFFFF_FFFF;
const SIG: [u8; 8] = [0xD0, 0xCF, 0x11, 0xE0, 0xA1, 0xB1, 0x1A, 0xE1];

#[derive(Clone, Debug)]
pub struct RawEntry {
    pub raw: Vec<u8>,
    pub name_units: Vec<u16>,
    pub name_len_field: u16,
    /// decoded name (None if the field does not decode)
    pub name: Option<String>,
    pub typ: u8,
    pub color: u8,
    pub left: u32,
    pub right: u32,
    pub child: u32,
    /// in API (big-endian field) byte order
    pub clsid: [u8; 16],
    pub state: u32,
    pub created: u64,
    pub modified: u64,
    pub start: u32,
    pub size: u64,
}

#[derive(Clone, Debug)]
pub struct DumpNode {
    pub name: String,
    pub id: u32,
    pub is_stream: bool,
    pub clsid: [u8; 16],
    pub state: u32,
    pub created: u64,
    pub modified: u64,
    pub size: u64,
    pub data: Option<Vec<u8>>,
    /// in-order (CFB order as stored in the tree)
    pub children: Vec<DumpNode>,
}

#[derive(Clone, Debug, Default)]
pub struct Header {
    pub minor: u16,
    pub major: u16,
    pub sector_shift: u16,
    pub mini_shift: u16,
    pub num_dir: u32,
    pub num_fat: u32,
    pub first_dir: u32,
    pub txn: u32,
    pub cutoff: u32,
    pub first_minifat: u32,
    pub num_minifat: u32,
    pub first_difat: u32,
    pub num_difat: u32,
    pub difat_head: Vec<u32>,
}

#[derive(Clone, Debug, Default)]
pub struct Parsed {
    pub header: Header,
    pub sector_len: usize,
    /// number of whole sectors after the header sector
    pub nsectors: usize,
    pub difat: Vec<u32>,
    pub difat_sectors: Vec<u32>,
    pub fat: Vec<u32>,
    pub dir_chain: Vec<u32>,
    pub minifat_chain: Vec<u32>,
    pub ministream_chain: Vec<u32>,
    pub minifat: Vec<u32>,
    pub entries: Vec<RawEntry>,
    /// core rule violations (id, detail)
    pub rules: Vec<(String, String)>,
    /// advisory findings
    pub advisory: Vec<(String, String)>,
    pub root: Option<DumpNode>,
    /// sector -> owner label
    pub owners: HashMap<u32, String>,
    /// file offset of every directory entry
    pub entry_offsets: Vec<usize>,
}

thread_local! {
    /// streams longer than this are not copied into the logical dump (`data: None`); the rules are
    /// unaffected. Only the > 4 GiB scenario lowers it.
    pub static MAX_DUMP: std::cell::Cell<u64> = std::cell::Cell::new(u64::MAX);
}

fn u16le(b: &[u8], o: usize) -> u16 {
    u16::from_le_bytes([b[o], b[o + 1]])
}
fn u32le(b: &[u8], o: usize) -> u32 {
    u32::from_le_bytes([b[o], b[o + 1], b[o + 2], b[o + 3]])
}
fn u64le(b: &[u8], o: usize) -> u64 {
    let mut a = [0u8; 8];
    a.copy_from_slice(&b[o..o + 8]);
    u64::from_le_bytes(a)
}

impl Parsed {
    fn rule(&mut self, id: &str, detail: String) {
        if self.rules.len() < 200 {
            self.rules.push((id.to_string(), detail));
        }
    }
    fn adv(&mut self, id: &str, detail: String) {
        if self.advisory.len() < 200 {
            self.advisory.push((id.to_string(), detail));
        }
    }
    pub fn sector_off(&self, s: u32) -> usize {
        (s as usize + 1) * self.sector_len
    }
    pub fn rule_ids(&self) -> Vec<String> {
        let mut v: Vec<String> = self.rules.iter().map(|(i, _)| i.clone()).collect();
        v.sort();
        v.dedup();
        v
    }

    /// Follows a FAT chain; stops at the first problem. Returns (sectors, ended_properly).
    pub fn chain(&self, start: u32) -> (Vec<u32>, bool) {
        let mut out = Vec::new();
        let mut seen = HashSet::new();
        let mut cur = start;
        loop {
            if cur == ENDOFCHAIN {
                return (out, true);
            }
            if cur > MAXREGSECT || cur as usize >= self.fat.len() || cur as usize >= self.nsectors {
                return (out, false);
            }
            if !seen.insert(cur) {
                return (out, false);
            }
            out.push(cur);
            cur = self.fat[cur as usize];
        }
    }

    pub fn mini_chain(&self, start: u32) -> (Vec<u32>, bool) {
        let mut out = Vec::new();
        let mut seen = HashSet::new();
        let mut cur = start;
        loop {
            if cur == ENDOFCHAIN {
                return (out, true);
            }
            if cur > MAXREGSECT || cur as usize >= self.minifat.len() {
                return (out, false);
            }
            if !seen.insert(cur) {
                return (out, false);
            }
            out.push(cur);
            cur = self.minifat[cur as usize];
        }
    }

    /// File offsets (offset, len) holding the bytes [from, to) of the stream of entry `id`.
    pub fn stream_extents(&self, id: u32, from: u64, to: u64) -> Vec<(usize, usize)> {
        let e = &self.entries[id as usize];
        let mut out = Vec::new();
        let (unit, locate): (u64, Box<dyn Fn(usize) -> Option<usize> + '_>) = if e.size >= 4096 || e.typ == 5 {
            let (ch, _) = self.chain(e.start);
            (self.sector_len as u64, Box::new(move |i| ch.get(i).map(|s| self.sector_off(*s))))
        } else {
            let (ch, _) = self.mini_chain(e.start);
            let per = self.sector_len / 64;
            (
                64,
                Box::new(move |i| {
                    let ms = *ch.get(i)? as usize;
                    let sec = *self.ministream_chain.get(ms / per)?;
                    Some(self.sector_off(sec) + (ms % per) * 64)
                }),
            )
        };
        let mut pos = from;
        while pos < to {
            let i = (pos / unit) as usize;
            let within = pos % unit;
            let n = (unit - within).min(to - pos);
            match locate(i) {
                Some(off) => out.push((off + within as usize, n as usize)),
                None => break,
            }
            pos += n;
        }
        out
    }

    fn read_stream(&self, bytes: &[u8], e: &RawEntry) -> Option<Vec<u8>> {
        let size = e.size as usize;
        if e.size > bytes.len() as u64 {
            return None;
        }
        let mut out = Vec::with_capacity(size);
        if e.size >= 4096 {
            let (ch, _) = self.chain(e.start);
            for s in ch {
                if out.len() >= size {
                    break;
                }
                let off = self.sector_off(s);
                let n = self.sector_len.min(size - out.len());
                if off + n > bytes.len() {
                    return None;
                }
                out.extend_from_slice(&bytes[off..off + n]);
            }
        } else {
            let (ch, _) = self.mini_chain(e.start);
            let per = self.sector_len / 64;
            for ms in ch {
                if out.len() >= size {
                    break;
                }
                let sec = *self.ministream_chain.get(ms as usize / per)?;
                let off = self.sector_off(sec) + (ms as usize % per) * 64;
                let n = 64.min(size - out.len());
                if off + n > bytes.len() {
                    return None;
                }
                out.extend_from_slice(&bytes[off..off + n]);
            }
        }
        if out.len() == size {
            Some(out)
        } else {
            None
        }
    }

    /// Finds the directory entry id for a chain of names (by exact CFB comparison over the
    /// sibling trees, independent of the library), for statistics.
    pub fn find_id(&self, names: &[String]) -> Option<u32> {
        let mut node = self.root.as_ref()?;
        for n in names {
            node = node.children.iter().find(|c| cfb_cmp(&c.name, n) == Ordering::Equal)?;
        }
        Some(node.id)
    }

    pub fn has_two_children(&self, id: u32) -> bool {
        self.entries.get(id as usize).map(|e| e.left != NOSTREAM && e.right != NOSTREAM).unwrap_or(false)
    }

    /// in-order predecessor's id when the node has two children
    pub fn predecessor(&self, id: u32) -> Option<u32> {
        let e = self.entries.get(id as usize)?;
        if e.left == NOSTREAM || e.right == NOSTREAM {
            return None;
        }
        let mut cur = e.left;
        for _ in 0..self.entries.len() {
            let r = self.entries.get(cur as usize)?.right;
            if r == NOSTREAM {
                return Some(cur);
            }
            cur = r;
        }
        None
    }
}

fn parse_entry(raw: &[u8]) -> RawEntry {
    let name_units: Vec<u16> = (0..32).map(|i| u16le(raw, 2 * i)).collect();
    let name_len_field = u16le(raw, 64);
    let mut name = None;
    if name_len_field >= 2 && name_len_field <= 64 && name_len_field % 2 == 0 {
        let n = (name_len_field / 2 - 1) as usize;
        name = String::from_utf16(&name_units[..n]).ok();
    }
    let g = &raw[80..96];
    let clsid = [g[3], g[2], g[1], g[0], g[5], g[4], g[7], g[6], g[8], g[9], g[10], g[11], g[12], g[13], g[14], g[15]];
    RawEntry {
        raw: raw.to_vec(),
        name_units,
        name_len_field,
        name,
        typ: raw[66],
        color: raw[67],
        left: u32le(raw, 68),
        right: u32le(raw, 72),
        child: u32le(raw, 76),
        clsid,
        state: u32le(raw, 96),
        created: u64le(raw, 100),
        modified: u64le(raw, 108),
        start: u32le(raw, 116),
        size: u64le(raw, 120),
    }
}

/// Parses and checks an image. Err only if it is too short to have a header.
pub fn parse(bytes: &[u8]) -> Result<Parsed, String> {
    if bytes.len() < 512 {
        return Err(format!("{} bytes is shorter than a header", bytes.len()));
    }
    let mut p = Parsed::default();
    let h = Header {
        minor: u16le(bytes, 24),
        major: u16le(bytes, 26),
        sector_shift: u16le(bytes, 30),
        mini_shift: u16le(bytes, 32),
        num_dir: u32le(bytes, 40),
        num_fat: u32le(bytes, 44),
        first_dir: u32le(bytes, 48),
        txn: u32le(bytes, 52),
        cutoff: u32le(bytes, 56),
        first_minifat: u32le(bytes, 60),
        num_minifat: u32le(bytes, 64),
        first_difat: u32le(bytes, 68),
        num_difat: u32le(bytes, 72),
        difat_head: (0..109).map(|i| u32le(bytes, 76 + 4 * i)).collect(),
    };
    // R01-R04: fixed header fields
    if bytes[0..8] != SIG {
        p.rule("R01-signature", "bad signature".into());
    }
    if u16le(bytes, 28) != 0xFFFE {
        p.rule("R02-byte-order", format!("byte order {:#x}", u16le(bytes, 28)));
    }
    let ok_version = (h.major == 3 && h.sector_shift == 9) || (h.major == 4 && h.sector_shift == 12);
    if !ok_version {
        p.rule("R03-version-shift", format!("major {} with sector shift {}", h.major, h.sector_shift));
    }
    if h.mini_shift != 6 || h.cutoff != 4096 {
        p.rule("R04-mini-params", format!("mini shift {} cutoff {}", h.mini_shift, h.cutoff));
    }
    if bytes[8..24].iter().any(|&b| b != 0) || bytes[34..40].iter().any(|&b| b != 0) {
        p.adv("A01-header-reserved", "reserved header bytes not zero".into());
    }
    p.header = h.clone();
    if !ok_version {
        return Ok(p);
    }
    let sl = 1usize << h.sector_shift;
    p.sector_len = sl;
    if bytes.len() < sl {
        p.rule("R14-file-length", format!("file of {} bytes shorter than one sector", bytes.len()));
        return Ok(p);
    }
    if bytes.len() % sl != 0 {
        p.rule("R14-file-length", format!("file length {} is not a multiple of {}", bytes.len(), sl));
    }
    p.nsectors = bytes.len() / sl - 1;
    if h.major == 4 && bytes[512..4096].iter().any(|&b| b != 0) {
        p.adv("A02-v4-header-padding", "bytes after the V4 header not zero".into());
    }
    let nsec = p.nsectors;
    let per = sl / 4;

    // ---- DIFAT
    let mut difat: Vec<u32> = Vec::new();
    let mut seen_free = false;
    for (i, &d) in h.difat_head.iter().enumerate() {
        if d == FREESECT {
            seen_free = true;
        } else {
            if seen_free {
                p.rule("R10-difat-prefix", format!("header DIFAT entry {} used after a free entry", i));
            }
            difat.push(d);
        }
    }
    let mut difat_sectors = Vec::new();
    {
        let mut cur = h.first_difat;
        let mut seen = HashSet::new();
        let mut ended = true;
        while cur != ENDOFCHAIN {
            if cur > MAXREGSECT || cur as usize >= nsec {
                p.rule("R11-difat-chain", format!("DIFAT chain reaches invalid sector {:#x}", cur));
                ended = false;
                break;
            }
            if !seen.insert(cur) {
                p.rule("R11-difat-chain", format!("DIFAT chain revisits sector {}", cur));
                ended = false;
                break;
            }
            difat_sectors.push(cur);
            let off = (cur as usize + 1) * sl;
            let mut free_seen = seen_free;
            for i in 0..per - 1 {
                let d = u32le(bytes, off + 4 * i);
                if d == FREESECT {
                    free_seen = true;
                } else {
                    if free_seen {
                        p.rule("R10-difat-prefix", format!("DIFAT sector {} cell {} used after a free cell", cur, i));
                    }
                    difat.push(d);
                }
            }
            seen_free = free_seen;
            cur = u32le(bytes, off + sl - 4);
        }
        let _ = ended;
    }
    if h.num_difat as usize != difat_sectors.len() {
        p.rule("R07-num-difat", format!("header says {} DIFAT sectors, chain has {}", h.num_difat, difat_sectors.len()));
    }
    if h.num_fat as usize != difat.len() {
        p.rule("R06-num-fat", format!("header says {} FAT sectors, DIFAT lists {}", h.num_fat, difat.len()));
    }
    // ---- FAT
    let mut fat: Vec<u32> = Vec::new();
    let mut fat_ok = true;
    {
        let mut seen = HashSet::new();
        for &fs in difat.iter() {
            if fs > MAXREGSECT || fs as usize >= nsec {
                p.rule("R12-fat-sector-range", format!("DIFAT lists sector {:#x} beyond the file", fs));
                fat_ok = false;
                break;
            }
            if !seen.insert(fs) {
                p.rule("R12-fat-sector-range", format!("DIFAT lists sector {} twice", fs));
            }
            let off = (fs as usize + 1) * sl;
            for i in 0..per {
                fat.push(u32le(bytes, off + 4 * i));
            }
        }
    }
    p.difat = difat.clone();
    p.difat_sectors = difat_sectors.clone();
    if fat.len() < nsec {
        p.rule("R13-fat-covers-file", format!("FAT has {} cells for {} sectors", fat.len(), nsec));
    }
    for (i, &c) in fat.iter().enumerate().skip(nsec) {
        if c != FREESECT {
            p.rule("R13-fat-beyond-eof", format!("FAT cell {} beyond the last sector is {:#x}", i, c));
            break;
        }
    }
    p.fat = fat.clone();
    if !fat_ok {
        return Ok(p);
    }
    // FATSECT / DIFSECT marking, both directions
    let fat_set: HashSet<u32> = difat.iter().copied().collect();
    let dif_set: HashSet<u32> = difat_sectors.iter().copied().collect();
    for s in 0..nsec.min(fat.len()) {
        let c = fat[s];
        let s32 = s as u32;
        if fat_set.contains(&s32) {
            if c != FATSECT {
                p.rule("R12-fatsect-mark", format!("FAT sector {} has cell {:#x}", s, c));
            }
        } else if c == FATSECT {
            p.rule("R12-fatsect-mark", format!("sector {} marked FATSECT but not in the DIFAT", s));
        }
        if dif_set.contains(&s32) {
            if c != DIFSECT {
                p.rule("R12-difsect-mark", format!("DIFAT sector {} has cell {:#x}", s, c));
            }
        } else if c == DIFSECT {
            p.rule("R12-difsect-mark", format!("sector {} marked DIFSECT but not in the DIFAT chain", s));
        }
        if c == 0xFFFF_FFFB {
            p.rule("R15-invalid-cell", format!("FAT cell {} is the reserved value FFFFFFFB", s));
        }
    }

    // ---- owners
    let mut owners: HashMap<u32, String> = HashMap::new();
    let claim = |p: &mut Parsed, owners: &mut HashMap<u32, String>, chain: &[u32], who: &str| {
        for &s in chain {
            if let Some(prev) = owners.insert(s, who.to_string()) {
                p.rule("R16-cross-link", format!("sector {} belongs to both {} and {}", s, prev, who));
            }
        }
    };
    // directory chain
    let (dir_chain, dir_ok) = p.chain(h.first_dir);
    if !dir_ok || dir_chain.is_empty() {
        p.rule("R15-dir-chain", format!("directory chain from {:#x} is broken or empty", h.first_dir));
    }
    claim(&mut p, &mut owners, &dir_chain, "directory");
    if h.major == 3 {
        if h.num_dir != 0 {
            p.rule("R05-num-dir", format!("V3 header says {} directory sectors", h.num_dir));
        }
    } else if h.num_dir as usize != dir_chain.len() {
        p.rule("R05-num-dir", format!("header says {} directory sectors, chain has {}", h.num_dir, dir_chain.len()));
    }
    p.dir_chain = dir_chain.clone();
    // MiniFAT chain
    let (mf_chain, mf_ok) = if h.first_minifat == ENDOFCHAIN { (vec![], true) } else { p.chain(h.first_minifat) };
    if !mf_ok {
        p.rule("R15-minifat-chain", format!("MiniFAT chain from {:#x} is broken", h.first_minifat));
    }
    if h.first_minifat == FREESECT {
        p.rule("R08-first-minifat", "first MiniFAT sector is FREESECT".into());
    }
    claim(&mut p, &mut owners, &mf_chain, "minifat");
    if h.num_minifat as usize != mf_chain.len() {
        p.rule("R08-num-minifat", format!("header says {} MiniFAT sectors, chain has {}", h.num_minifat, mf_chain.len()));
    }
    p.minifat_chain = mf_chain.clone();
    let mut minifat = Vec::new();
    for &s in mf_chain.iter() {
        let off = (s as usize + 1) * sl;
        for i in 0..per {
            minifat.push(u32le(bytes, off + 4 * i));
        }
    }
    p.minifat = minifat.clone();

    // ---- directory entries
    let mut entries = Vec::new();
    let mut entry_offsets = Vec::new();
    for &s in dir_chain.iter() {
        let off = (s as usize + 1) * sl;
        for i in 0..sl / 128 {
            let o = off + 128 * i;
            entries.push(parse_entry(&bytes[o..o + 128]));
            entry_offsets.push(o);
        }
    }
    p.entries = entries.clone();
    p.entry_offsets = entry_offsets;
    if entries.is_empty() {
        p.owners = owners;
        return Ok(p);
    }
    let root = &entries[0];
    if root.typ != 5 {
        p.rule("R24-root-type", format!("entry 0 has type {}", root.typ));
    }
    if root.left != NOSTREAM || root.right != NOSTREAM {
        p.rule("R24-root-siblings", "root entry has siblings".into());
    }
    if root.name.as_deref() != Some("Root Entry") {
        p.adv("A03-root-name", format!("root entry named {:?}", root.name));
    }
    // mini stream chain
    let (ms_chain, ms_ok) = if root.start == ENDOFCHAIN || (root.size == 0 && root.start == 0 && false) { (vec![], true) } else { p.chain(root.start) };
    if !ms_ok {
        p.rule("R15-ministream-chain", format!("mini stream chain from {:#x} is broken", root.start));
    }
    claim(&mut p, &mut owners, &ms_chain, "ministream");
    p.ministream_chain = ms_chain.clone();
    if root.size % 64 != 0 {
        p.rule("R22-ministream-size", format!("root size {} is not a multiple of 64", root.size));
    }
    if ((ms_chain.len() as u64).saturating_mul(sl as u64)) <= root.size.saturating_sub(1) && root.size > 0 {
        p.rule("R22-ministream-capacity", format!("mini stream chain of {} sectors cannot hold {} bytes", ms_chain.len(), root.size));
    }
    let mini_count = (root.size / 64) as usize;
    if minifat.len() < mini_count {
        p.rule("R22-minifat-capacity", format!("MiniFAT has {} cells for {} mini sectors", minifat.len(), mini_count));
    }

    // ---- tree walk: reachability, BST bounds, colours, names, per-entry rules
    let n = entries.len();
    let mut reached = vec![0u32; n];
    let mut mini_owner: HashMap<u32, u32> = HashMap::new();
    // (storage id) -> children in order, built iteratively
    let mut children_of: BTreeMap<u32, Vec<u32>> = BTreeMap::new();
    let mut storages = vec![0u32];
    let mut budget = 4 * n + 16;
    while let Some(st) = storages.pop() {
        let child = entries[st as usize].child;
        let mut inorder: Vec<u32> = Vec::new();
        if child != NOSTREAM {
            // iterative in-order with bounds
            // stack items: (id, lo, hi, parent_red, state)
            let mut stack: Vec<(u32, Option<u32>, Option<u32>, bool, u8)> = vec![(child, None, None, false, 0)];
            while let Some((id, lo, hi, pred, state)) = stack.pop() {
                if budget == 0 {
                    p.rule("R25-tree-loop", "tree walk exceeded its budget (loop)".into());
                    break;
                }
                if id as usize >= n {
                    p.rule("R25-link-range", format!("link to entry {} of {}", id, n));
                    continue;
                }
                let e = &entries[id as usize];
                if state == 0 {
                    budget -= 1;
                    reached[id as usize] += 1;
                    if reached[id as usize] > 1 {
                        p.rule("R25-reached-twice", format!("entry {} reached more than once", id));
                        continue;
                    }
                    if e.typ != 1 && e.typ != 2 {
                        p.rule("R24-entry-type", format!("reachable entry {} has type {}", id, e.typ));
                    }
                    let red = e.color == 0;
                    if e.color > 1 {
                        p.rule("R28-color", format!("entry {} colour byte {}", id, e.color));
                    }
                    if red && pred {
                        p.rule("R28-red-red", format!("entry {} and its parent are both red", id));
                    }
                    // name
                    match &e.name {
                        None => p.rule("R27-name-field", format!("entry {} name field does not decode (len {})", id, e.name_len_field)),
                        Some(nm) => {
                            let units = nm.encode_utf16().count();
                            if units == 0 || units > 31 || nm.chars().any(|c| matches!(c, '/' | '\\' | ':' | '!')) {
                                p.rule("R27-name-invalid", format!("entry {} name {:?} is not a valid name", id, nm));
                            }
                            if e.name_units[units.min(31)] != 0 {
                                p.rule("R27-name-terminator", format!("entry {} name not null-terminated", id));
                            }
                            if e.name_units[(units + 1).min(32)..].iter().any(|&u| u != 0) {
                                p.adv("A04-name-padding", format!("entry {} name padding not zero", id));
                            }
                            for (b, is_lo) in [(lo, true), (hi, false)] {
                                if let Some(b) = b {
                                    if let Some(bn) = &entries[b as usize].name {
                                        let ord = cfb_cmp(nm, bn);
                                        let ok = if is_lo { ord == Ordering::Greater } else { ord == Ordering::Less };
                                        if !ok {
                                            p.rule("R26-bst-order", format!("entry {} {:?} violates search-tree bound {:?} (entry {})", id, nm, bn, b));
                                        }
                                    }
                                }
                            }
                        }
                    }
                    stack.push((id, lo, hi, pred, 1));
                    if e.left != NOSTREAM {
                        stack.push((e.left, lo, Some(id), red, 0));
                    }
                } else {
                    inorder.push(id);
                    let red = e.color == 0;
                    if e.right != NOSTREAM {
                        stack.push((e.right, Some(id), hi, red, 0));
                    }
                }
            }
            if entries.get(child as usize).map(|e| e.color == 0).unwrap_or(false) {
                p.adv("A05-red-tree-root", format!("sibling-tree root {} is red", child));
            }
        }
        for &c in inorder.iter() {
            let e = &entries[c as usize];
            if e.typ == 1 {
                storages.push(c);
            } else if e.child != NOSTREAM {
                p.rule("R29-stream-child", format!("stream entry {} has a child", c));
            }
        }
        children_of.insert(st, inorder);
    }
    // per-entry rules
    for (id, e) in entries.iter().enumerate() {
        let id32 = id as u32;
        let allocated = e.typ != 0;
        if id > 0 && allocated && reached[id] == 0 {
            p.rule("R25-unreachable", format!("allocated entry {} (type {}) is not reachable from the root", id, e.typ));
        }
        if !allocated {
            let mut blank = vec![0u8; 128];
            blank[68..80].copy_from_slice(&[0xFF; 12]);
            if e.raw != blank {
                let firstdiff = e.raw.iter().zip(blank.iter()).position(|(a, b)| a != b).unwrap_or(0);
                p.rule("R31-unallocated-entry-not-blank", format!("unallocated entry {} differs from the blank pattern at byte {} ({:#x})", id, firstdiff, e.raw[firstdiff]));
            }
            continue;
        }
        if e.typ == 2 {
            if e.clsid != [0; 16] {
                p.rule("R29-stream-clsid", format!("stream entry {} has a CLSID", id));
            }
            if e.created != 0 || e.modified != 0 {
                p.rule("R29-stream-times", format!("stream entry {} has timestamps", id));
            }
            let size = if h.major == 3 { e.size & 0xFFFF_FFFF } else { e.size };
            if h.major == 3 && e.size >> 32 != 0 {
                p.adv("A06-v3-size-high", format!("entry {} has non-zero high size bits", id));
            }
            let who = format!("stream#{}", id);
            if size == 0 {
                if e.start <= MAXREGSECT {
                    p.rule("R23-empty-stream-start", format!("empty stream entry {} has start sector {}", id, e.start));
                }
            } else if size >= 4096 {
                let (ch, ok) = p.chain(e.start);
                let need = (size / sl as u64 + (size % sl as u64 != 0) as u64) as usize;
                if !ok {
                    p.rule("R15-stream-chain", format!("chain of stream entry {} from {:#x} is broken", id, e.start));
                }
                if ch.len() != need {
                    p.rule("R20-chain-length", format!("stream entry {} of {} bytes has a chain of {} sectors, needs {}", id, size, ch.len(), need));
                }
                claim(&mut p, &mut owners, &ch, &who);
            } else {
                let (ch, ok) = p.mini_chain(e.start);
                let need = (size / 64 + (size % 64 != 0) as u64) as usize;
                if !ok {
                    p.rule("R17-mini-chain", format!("mini chain of stream entry {} from {:#x} is broken", id, e.start));
                }
                if ch.len() != need {
                    p.rule("R21-mini-chain-length", format!("stream entry {} of {} bytes has a mini chain of {} sectors, needs {}", id, size, ch.len(), need));
                }
                for &ms in ch.iter() {
                    if ms as usize >= mini_count {
                        p.rule("R21-mini-sector-range", format!("stream entry {} uses mini sector {} beyond the mini stream ({} mini sectors)", id, ms, mini_count));
                    }
                    if let Some(prev) = mini_owner.insert(ms, id32) {
                        p.rule("R18-mini-cross-link", format!("mini sector {} belongs to entries {} and {}", ms, prev, id));
                    }
                }
            }
        } else if e.typ == 1 {
            if e.start != 0 || e.size != 0 {
                p.adv("A07-storage-start-size", format!("storage entry {} has start {} size {}", id, e.start, e.size));
            }
        }
    }
    // orphans: every non-free, non-special FAT cell must have an owner
    for s in 0..nsec.min(fat.len()) {
        let c = fat[s];
        if c == FREESECT || c == FATSECT || c == DIFSECT {
            if let Some(o) = owners.get(&(s as u32)) {
                p.rule("R16-owned-but-free", format!("sector {} belongs to {} but its FAT cell is {:#x}", s, o, c));
            }
            continue;
        }
        if !owners.contains_key(&(s as u32)) {
            p.rule("R19-orphan-sector", format!("sector {} (FAT cell {:#x}) belongs to no chain", s, c));
        }
    }
    for (ms, &c) in minifat.iter().enumerate() {
        if c == FREESECT {
            if mini_owner.contains_key(&(ms as u32)) {
                p.rule("R18-mini-owned-but-free", format!("mini sector {} is used but free in the MiniFAT", ms));
            }
            continue;
        }
        if !mini_owner.contains_key(&(ms as u32)) {
            p.rule("R19-orphan-mini-sector", format!("mini sector {} (MiniFAT cell {:#x}) belongs to no stream", ms, c));
        }
    }
    p.owners = owners;

    // ---- logical dump
    fn build(p: &Parsed, bytes: &[u8], id: u32, children_of: &BTreeMap<u32, Vec<u32>>, depth: usize) -> DumpNode {
        let e = &p.entries[id as usize];
        let is_stream = e.typ == 2;
        let size = if p.header.major == 3 { e.size & 0xFFFF_FFFF } else { e.size };
        let mut node = DumpNode {
            name: e.name.clone().unwrap_or_default(),
            id,
            is_stream,
            clsid: e.clsid,
            state: e.state,
            created: e.created,
            modified: e.modified,
            size,
            data: None,
            children: vec![],
        };
        if is_stream {
            let mut e2 = e.clone();
            e2.size = size;
            if size <= MAX_DUMP.with(|m| m.get()) {
                node.data = p.read_stream(bytes, &e2);
            }
        } else if depth < 4096 {
            if let Some(ch) = children_of.get(&id) {
                for &c in ch {
                    node.children.push(build(p, bytes, c, children_of, depth + 1));
                }
            }
        }
        node
    }
    if p.entries[0].typ == 5 {
        let root = build(&p, bytes, 0, &children_of, 0);
        p.root = Some(root);
    }
    Ok(p)
}

/// Convenience: the list of violated core rule ids, or a parse error as a pseudo rule.
pub fn check(bytes: &[u8]) -> Vec<(String, String)> {
    match parse(bytes) {
        Ok(p) => p.rules,
        Err(e) => vec![("R00-no-header".to_string(), e)],
    }
}

//! The operation language shared by all history-based checks.  A case is plain data
//! (serde-serialisable) so that it can be shrunk as one value and replayed from JSON.

use serde::{Deserialize, Serialize};

#[derive(Clone, Copy, Debug, PartialEq, Eq, Serialize, Deserialize)]
pub enum PickKind {
    Any,
    Stream,
    Storage,
    /// storages including the root
    StorageOrRoot,
    /// any object including the root
    AnyOrRoot,
}

/// How a resolved chain of names is spelled as a path string.
#[derive(Clone, Debug, PartialEq, Eq, Serialize, Deserialize, Default)]
pub struct Spell {
    /// 0: "/a/b"  1: "a/b"  2: "//a/b"  3: "./a/b"
    pub lead: u8,
    pub trail: bool,
    /// insert a "." component at this position (mod n+1)
    pub dot: Option<u8>,
    /// insert "<name>/.." at this position (mod n+1); name from the pool
    pub detour: Option<(u8, u16)>,
    /// letter-case variant of existing components
    pub case_mask: u32,
    pub case_pick: u8,
}

#[derive(Clone, Copy, Debug, PartialEq, Eq, Serialize, Deserialize)]
pub enum BadKind {
    /// <existing storage>/<name not present>/<name>
    MissingParent,
    /// <existing stream>/<name>
    UnderStream,
    /// <existing>/../../.. (escapes the root)
    Escape,
    /// a component that is not UTF-8
    NonUtf8,
    /// <existing storage>/<invalid name>
    InvalidName,
    /// <existing storage>/<name not present>
    Missing,
}

#[derive(Clone, Debug, PartialEq, Eq, Serialize, Deserialize)]
pub enum PathSpec {
    /// an existing object chosen from the model (monotone index)
    Pick { kind: PickKind, idx: u16, spell: Spell },
    /// <existing storage (incl. root)>/<pool name> - may or may not exist already
    New { parent: u16, name: u16, spell: Spell },
    Bad { kind: BadKind, base: u16, name: u16 },
    Raw(String),
}

#[derive(Clone, Copy, Debug, PartialEq, Eq, Serialize, Deserialize)]
pub struct DataSpec {
    pub len: u32,
    pub seed: u8,
}

impl DataSpec {
    pub fn bytes(&self) -> Vec<u8> {
        pattern(self.seed, 0, self.len as usize)
    }
}

/// Non-zero, position-dependent pattern keyed by a seed.
pub fn pattern(seed: u8, start: usize, len: usize) -> Vec<u8> {
    (start..start + len)
        .map(|i| (((i.wrapping_mul(131)) ^ (i >> 8).wrapping_mul(17) ^ (seed as usize).wrapping_mul(29)) % 255 + 1) as u8)
        .collect()
}

#[derive(Clone, Copy, Debug, PartialEq, Eq, Serialize, Deserialize)]
pub struct TimeSpec {
    pub neg: bool,
    pub secs: u64,
    pub nanos: u32,
}

/// A seek argument, resolved against the model's (len, pos) at run time.
#[derive(Clone, Copy, Debug, PartialEq, Eq, Serialize, Deserialize)]
pub enum SeekSpec {
    /// Start(len*frac>>16 + delta)
    Start { frac: u16, delta: i16 },
    /// End(-(len*frac>>16) + delta)
    End { frac: u16, delta: i16 },
    /// Current(target - pos) with target = len*frac>>16 + delta
    Cur { frac: u16, delta: i16 },
    StartRaw(u64),
    EndRaw(i64),
    CurRaw(i64),
}

/// A length resolved against the current stream length: base + delta (clamped at 0).
#[derive(Clone, Copy, Debug, PartialEq, Eq, Serialize, Deserialize)]
pub enum LenSpec {
    Abs(u32),
    /// current length + delta
    Rel(i32),
}

#[derive(Clone, Debug, PartialEq, Eq, Serialize, Deserialize)]
pub enum Op {
    CreateStorage { p: PathSpec },
    CreateStorageAll { p: PathSpec },
    RemoveStorage { p: PathSpec },
    RemoveStorageAll { p: PathSpec },
    /// create_stream + write_all + drop
    CreateStream { p: PathSpec, data: DataSpec },
    CreateNewStream { p: PathSpec, data: DataSpec },
    RemoveStream { p: PathSpec },
    /// open_stream + read_to_end
    ReadAll { p: PathSpec },
    /// open_stream + seek(Start(len*frac>>16)) + write_all + drop
    Overwrite { p: PathSpec, frac: u16, data: DataSpec },
    /// open_stream + set_len + drop
    SetLen { p: PathSpec, len: LenSpec },
    List { p: PathSpec },
    ListRoot,
    Walk,
    WalkStorage { p: PathSpec },
    Exists { p: PathSpec },
    IsStream { p: PathSpec },
    IsStorage { p: PathSpec },
    Entry { p: PathSpec },
    RootEntry,
    SetClsid { p: PathSpec, clsid: [u8; 16] },
    SetStateBits { p: PathSpec, bits: u32 },
    SetCreated { p: PathSpec, t: TimeSpec },
    SetModified { p: PathSpec, t: TimeSpec },
    Touch { p: PathSpec },
    Flush,
    Reopen { strict: bool },
    // ---- handle operations (slot 0..4) ----
    HOpen { slot: u8, p: PathSpec },
    HCreate { slot: u8, p: PathSpec },
    HRead { slot: u8, n: u32 },
    HReadExact { slot: u8, n: u32 },
    /// fill_buf, then consume(returned_len * frac >> 16 rounded up when frac>0)
    HFillConsume { slot: u8, frac: u16 },
    /// one `write` call (the returned count is honoured)
    HWrite { slot: u8, data: DataSpec },
    HWriteAll { slot: u8, data: DataSpec },
    HSeek { slot: u8, s: SeekSpec },
    HSetLen { slot: u8, len: LenSpec },
    HFlush { slot: u8 },
    HLen { slot: u8 },
    HPos { slot: u8 },
    HReadToEnd { slot: u8 },
    HClose { slot: u8 },
    /// write_vectored with the data split into slices at len*a>>16 and len*b>>16
    HWriteV { slot: u8, data: DataSpec, a: u16, b: u16 },
    /// read_vectored into two buffers of n1 and n2 bytes
    HReadV { slot: u8, n1: u32, n2: u32 },
    /// BufRead::read_until(byte)
    HReadUntil { slot: u8, byte: u8 },
    /// Seek::rewind
    HRewind { slot: u8 },
    /// use of a handle whose own stream has been removed (C07: must touch nothing else);
    /// how: 0 read, 1 write_all+flush, 2 set_len, 3 seek+read, 4 write, 5 drop
    HStaleUse { k: u8, how: u8, data: DataSpec },
}

impl Op {
    pub fn kind(&self) -> &'static str {
        match self {
            Op::CreateStorage { .. } => "create_storage",
            Op::CreateStorageAll { .. } => "create_storage_all",
            Op::RemoveStorage { .. } => "remove_storage",
            Op::RemoveStorageAll { .. } => "remove_storage_all",
            Op::CreateStream { .. } => "create_stream",
            Op::CreateNewStream { .. } => "create_new_stream",
            Op::RemoveStream { .. } => "remove_stream",
            Op::ReadAll { .. } => "read_all",
            Op::Overwrite { .. } => "overwrite",
            Op::SetLen { .. } => "set_len",
            Op::List { .. } => "read_storage",
            Op::ListRoot => "read_root_storage",
            Op::Walk => "walk",
            Op::WalkStorage { .. } => "walk_storage",
            Op::Exists { .. } => "exists",
            Op::IsStream { .. } => "is_stream",
            Op::IsStorage { .. } => "is_storage",
            Op::Entry { .. } => "entry",
            Op::RootEntry => "root_entry",
            Op::SetClsid { .. } => "set_storage_clsid",
            Op::SetStateBits { .. } => "set_state_bits",
            Op::SetCreated { .. } => "set_created_time",
            Op::SetModified { .. } => "set_modified_time",
            Op::Touch { .. } => "touch",
            Op::Flush => "flush",
            Op::Reopen { .. } => "reopen",
            Op::HOpen { .. } => "h_open",
            Op::HCreate { .. } => "h_create",
            Op::HRead { .. } => "h_read",
            Op::HReadExact { .. } => "h_read_exact",
            Op::HFillConsume { .. } => "h_fill_consume",
            Op::HWrite { .. } => "h_write",
            Op::HWriteAll { .. } => "h_write_all",
            Op::HSeek { .. } => "h_seek",
            Op::HSetLen { .. } => "h_set_len",
            Op::HFlush { .. } => "h_flush",
            Op::HLen { .. } => "h_len",
            Op::HPos { .. } => "h_pos",
            Op::HReadToEnd { .. } => "h_read_to_end",
            Op::HClose { .. } => "h_close",
            Op::HWriteV { .. } => "h_write_vectored",
            Op::HReadV { .. } => "h_read_vectored",
            Op::HReadUntil { .. } => "h_read_until",
            Op::HRewind { .. } => "h_rewind",
            Op::HStaleUse { .. } => "h_stale_use",
        }
    }
    pub fn is_mutation(&self) -> bool {
        matches!(
            self,
            Op::CreateStorage { .. }
                | Op::CreateStorageAll { .. }
                | Op::RemoveStorage { .. }
                | Op::RemoveStorageAll { .. }
                | Op::CreateStream { .. }
                | Op::CreateNewStream { .. }
                | Op::RemoveStream { .. }
                | Op::Overwrite { .. }
                | Op::SetLen { .. }
                | Op::SetClsid { .. }
                | Op::SetStateBits { .. }
                | Op::SetCreated { .. }
                | Op::SetModified { .. }
                | Op::Touch { .. }
                | Op::HCreate { .. }
                | Op::HWrite { .. }
                | Op::HWriteAll { .. }
                | Op::HWriteV { .. }
                | Op::HSetLen { .. }
        )
    }
}

/// Start state of a history.
#[derive(Clone, Debug, PartialEq, Eq, Serialize, Deserialize)]
pub enum Start {
    Fresh,
    /// a foreign-layout file synthesized from a small tree (seeded)
    Foreign { seed: u64 },
    /// a foreign-layout file carrying tolerated deviations (index into the C16 injector
    /// list, selector); opened permissively, never judged by strict reopen
    Deviant { seed: u64, devs: Vec<(u8, u16)> },
}

#[derive(Clone, Debug, PartialEq, Eq, Serialize, Deserialize)]
pub struct Case {
    /// 3 or 4
    pub version: u8,
    /// None = library default
    pub max_buf: Option<u32>,
    pub start: Start,
    pub pool: Vec<String>,
    pub ops: Vec<Op>,
}

pub fn pick(idx: u16, n: usize) -> usize {
    debug_assert!(n > 0);
    ((idx as usize) * n) >> 16
}

//! C12 - read failures of the underlying file never turn into wrong data.

use crate::backend::FaultDomain;
use crate::engine::Engine;
use crate::fault::*;
use crate::gen::*;
use crate::model::{Kind, Node};
use crate::ops::*;
use crate::props::c04::tree_strategy;
use crate::runner::*;
use crate::synth::*;
use crate::util::*;
use proptest::collection::vec;
use proptest::prelude::*;
use serde::{Deserialize, Serialize};
use serde_json::Value;
use std::sync::{Arc, Mutex};

#[derive(Clone, Debug, Serialize, Deserialize)]
pub struct C12Case {
    pub version: u8,
    pub pool: Vec<String>,
    pub tree: TreeSpec,
    pub choices: Vec<u16>,
    pub big_len: u32,
    pub max_buf: Option<u32>,
    pub strict: bool,
    pub script: Vec<Op>,
    pub pair_seed: u64,
    /// bit i set: op i is NOT retried after an error (the script just goes on)
    #[serde(default)]
    pub no_retry_mask: u32,
}

fn read_op_strategy() -> BoxedStrategy<Op> {
    let slot = 0u8..2;
    let n = prop_oneof![3 => proptest::sample::select(vec![0u32, 1, 10, 64, 100, 500, 1000, 1023, 1024, 1025, 2000, 4096, 5000]), 1 => 0u32..6000];
    prop_oneof![
        1 => Just(Op::Walk),
        1 => Just(Op::ListRoot),
        1 => Just(Op::RootEntry),
        2 => target_path(PickKind::StorageOrRoot, 1, 1).prop_map(|p| Op::List { p }),
        1 => target_path(PickKind::StorageOrRoot, 1, 1).prop_map(|p| Op::WalkStorage { p }),
        2 => target_path(PickKind::AnyOrRoot, 1, 1).prop_map(|p| Op::Entry { p }),
        1 => target_path(PickKind::Any, 2, 1).prop_map(|p| Op::Exists { p }),
        2 => target_path(PickKind::Stream, 1, 1).prop_map(|p| Op::ReadAll { p }),
        4 => (slot.clone(), target_path(PickKind::Stream, 1, 0)).prop_map(|(slot, p)| Op::HOpen { slot, p }),
        3 => slot.clone().prop_map(|slot| Op::HOpen { slot, p: PathSpec::Raw("/big".into()) }),
        10 => (slot.clone(), n.clone()).prop_map(|(slot, n)| Op::HRead { slot, n }),
        3 => (slot.clone(), n.clone(), n.clone()).prop_map(|(slot, n1, n2)| Op::HReadV { slot, n1, n2 }),
        2 => (slot.clone(), n).prop_map(|(slot, n)| Op::HReadExact { slot, n }),
        4 => (slot.clone(), any::<u16>()).prop_map(|(slot, frac)| Op::HFillConsume { slot, frac }),
        5 => (slot.clone(), seek_strategy()).prop_map(|(slot, s)| Op::HSeek { slot, s }),
        2 => slot.clone().prop_map(|slot| Op::HReadToEnd { slot }),
        1 => slot.clone().prop_map(|slot| Op::HLen { slot }),
        1 => slot.prop_map(|slot| Op::HClose { slot }),
    ]
    .boxed()
}

fn strategy(tier: Tier) -> BoxedStrategy<C12Case> {
    let nops = if tier == Tier::Thorough { 40 } else { 25 };
    (
        proptest::sample::select(vec![3u8, 4]),
        pool_strategy(NameProfile::Plain, 4, 10),
        tree_strategy(12),
        vec(any::<u16>(), 0..30),
        proptest::sample::select(vec![3500u32, 5000, 10_000, 14_000]),
        proptest::sample::select(vec![Some(1024u32), Some(1024), Some(4096), None]),
        any::<bool>(),
        vec(read_op_strategy(), 5..=nops),
        any::<u64>(),
        prop_oneof![2 => Just(0u32), 1 => Just(u32::MAX), 2 => any::<u32>()],
    )
        .prop_map(|(version, pool, tree, choices, big_len, max_buf, strict, mut script, pair_seed, no_retry_mask)| {
            // one case in three gets the window-boundary piece: read up to the end of the first
            // buffer window of /big, read across it (a refill, which the fault may hit after it has
            // fetched some sectors), then - without repeating the failed read when the mask says
            // so - go back into the first window and read there, and forward again
            if pair_seed % 3 == 0 {
                let w = max_buf.unwrap_or(1024).max(1024);
                let at = (pair_seed >> 8) as usize % (script.len() + 1);
                let piece = vec![
                    Op::HOpen { slot: 0, p: PathSpec::Raw("/big".into()) },
                    // exactly one window (a shorter read would leave bytes in the buffer and the
                    // next read would not refill), then the read that has to refill
                    Op::HReadExact { slot: 0, n: w },
                    Op::HRead { slot: 0, n: 1000 },
                    Op::HSeek { slot: 0, s: SeekSpec::StartRaw((pair_seed >> 16) % (w as u64 - 24)) },
                    Op::HRead { slot: 0, n: 300 },
                    Op::HSeek { slot: 0, s: SeekSpec::StartRaw(w as u64 - 10) },
                    Op::HRead { slot: 0, n: 700 },
                    Op::HSeek { slot: 0, s: SeekSpec::CurRaw(-200) },
                    Op::HRead { slot: 0, n: 100 },
                ];
                script.splice(at..at, piece);
            }
            C12Case { version, pool, tree, choices, big_len, max_buf, strict, script, pair_seed, no_retry_mask }
        })
        .boxed()
}

fn report(c: &C12Case) -> CaseReport {
    let mut rep = CaseReport { evaluations: 0, ..CaseReport::default() };
    let mut model = build_model(&c.tree, &c.pool);
    if model.get(&["big".to_string()]).is_none() {
        model.insert(&[], Node { name: "big".into(), state: 0, kind: Kind::Stream { data: pattern(7, 0, c.big_len as usize) } });
    }
    let (img, _) = synthesize(&model, c.version, &c.choices, 0);
    if let Some((id, d)) = crate::refparse::check(&img).first() {
        rep.fail = Some(Fail::new("harness|synth_invalid", format!("{} {}", id, d)));
        return rep;
    }
    let image = Arc::new(Mutex::new(img));
    let helper = Engine::model_only(model, c.pool.clone());
    let case_hash = fnv64(serde_json::to_string(c).unwrap_or_default().as_bytes());
    // fault-free run: counts the underlying read+seek calls
    let ctl = new_ctl(FaultDomain::ReadSide);
    let mut trace = Vec::new();
    let base = match run_read_script(&image, &helper, c.max_buf, c.strict, &c.script, &ctl, &mut trace, c.no_retry_mask) {
        Ok(s) => s,
        Err(f) => {
            rep.fail = Some(Fail::new(f.key.replace("read_fault|", "no_fault|"), format!("fault-free run: {}", f.detail)));
            rep.trace = trace;
            return rep;
        }
    };
    rep.evaluations += 1;
    let n = base.n_calls;
    let mut run_with = |faults: Vec<u64>, kind_idx: usize, rep: &mut CaseReport| -> bool {
        let ctl = new_ctl(FaultDomain::ReadSide);
        {
            let mut g = ctl.lock().unwrap();
            g.fault_at = faults.clone();
            g.fault_kind = READ_KINDS[(kind_idx + c.pair_seed as usize) % READ_KINDS.len()];
            // "If an error is returned then it must be guaranteed that no bytes were read" is what
            // retry loops rely on for Interrupted: that kind never comes with side effects
            g.fault_side_effects = (kind_idx + (c.pair_seed >> 8) as usize) % 2 == 1 && g.fault_kind != std::io::ErrorKind::Interrupted;
            g.faults_enabled = true;
        }
        let mut trace = vec![format!("faults at read-side call(s) {:?} of {} ({:?}, side effects {})", faults, n, READ_KINDS[(kind_idx + c.pair_seed as usize) % READ_KINDS.len()], (kind_idx + (c.pair_seed >> 8) as usize) % 2 == 1 && READ_KINDS[(kind_idx + c.pair_seed as usize) % READ_KINDS.len()] != std::io::ErrorKind::Interrupted)];
        rep.evaluations += 1;
        match run_read_script(&image, &helper, c.max_buf, c.strict, &c.script, &ctl, &mut trace, c.no_retry_mask) {
            Ok(s) => {
                if s.fault_in_stream_read && s.err_then_bytes_on_same_handle {
                    rep.nontrivial_items.push(case_hash ^ faults.iter().fold(0u64, |a, f| a.wrapping_mul(1_000_003).wrapping_add(*f + 1)));
                }
                if s.open_failed && !rep.classes.iter().any(|x| x == "open_failed_all_tries") {
                    rep.classes.push("open_failed_all_tries".into());
                }
                true
            }
            Err(mut f) => {
                f.detail = format!("[faults at {:?} of {} underlying read/seek calls] {}", faults, n, f.detail);
                rep.fail = Some(f);
                rep.trace = trace;
                false
            }
        }
    };
    // every single fault position
    for k in 0..n {
        if !run_with(vec![k], k as usize, &mut rep) {
            return rep;
        }
    }
    // pairs: all for small N, sampled otherwise
    if n >= 2 {
        if n <= 60 {
            for a in 0..n {
                for b in a + 1..n {
                    if !run_with(vec![a, b], (a + b) as usize, &mut rep) {
                        return rep;
                    }
                }
            }
            rep.classes.push("all_pairs".into());
        } else {
            let mut x = c.pair_seed | 1;
            for _ in 0..120 {
                x ^= x << 13;
                x ^= x >> 7;
                x ^= x << 17;
                let a = x % n;
                let gap = 1 + (x >> 32) % 12;
                let b = (a + gap).min(n - 1);
                if a != b && !run_with(vec![a, b], (a ^ b) as usize, &mut rep) {
                    return rep;
                }
            }
            rep.classes.push("sampled_pairs".into());
        }
    }
    rep.classes.push(format!("max_buf_{:?}", c.max_buf));
    rep.nontrivial = false;
    rep
}

fn worker(ctx: &Ctx) -> WorkerResult {
    run_worker(ctx, strategy(ctx.tier), report)
}

fn solo(v: &Value) -> Result<CaseReport, String> {
    run_solo(v, report)
}

pub fn def() -> PropDef {
    PropDef {
        id: "C12",
        level: "fault_enumeration",
        rule: "workload = synthesized image (tree of up to 13 entries incl. a 3.5-14 KB stream /big, mini streams) + read-only script of 5-25 calls (one case in three with a window-boundary piece: read to the end of the first buffer window of /big, across it, back into it, forward again) (open, walk, listings, entry, exists, whole-stream reads, handle read/read_vectored/read_exact/fill_buf+consume/seek/read_to_end with buffer sizes 1024/4096/default); the fault-free run counts N underlying read+seek calls; then one run per k in [0,N) with call k failing (twelve error kinds in rotation, among them Interrupted and WouldBlock - also on seeks -, with and without side effects of the failing call), plus all pairs for N<=60 or 120 sampled nearby pairs; after every Err the same call is retried up to 3 times. Oracle per call: Err only if a fault fired during that call, otherwise exactly the fault-free value; bytes delivered by any read must equal the true content at the position the handle reports; a read, read_vectored or fill_buf that returns Err must leave the reported position where it was (std: if an error is returned then it must be guaranteed that no bytes were read - the repeated call then returns what it returns without faults). evaluations = number of executions; a non-trivial item = an execution in which a fault fired inside a stream read, that call returned Err and a later read on the same handle returned bytes; distinct = distinct (case, fault positions).",
        assumptions: &["single faults are enumerated exhaustively per workload; workloads and pairs are sampled", "a failed read may leave the position anywhere: only data at the position the handle itself reports is judged"],
        quick_cases: 25,
        thorough_cases: 1500,
        worker,
        solo,
        hang_cpu_s: 300.0,
        extra: None,
        confirm_known: false,
    }
}

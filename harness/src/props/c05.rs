//! C05 - reading arbitrary bytes never panics, hangs or exhausts memory.
//! C11 shares the base-image and corruption machinery defined here.

use crate::backend::Io;
use crate::blind::*;
use crate::corrupt::*;
use crate::engine::{open_options, Engine, Oracles};
use crate::gen::*;
use crate::memtrack;
use crate::ops::*;
use crate::props::c04::tree_strategy;
use crate::refparse;
use crate::run::run_ops;
use crate::runner::*;
use crate::synth::*;
use crate::util::*;
use proptest::collection::vec;
use proptest::prelude::*;
use serde::{Deserialize, Serialize};
use serde_json::Value;

#[derive(Clone, Debug, Serialize, Deserialize)]
pub struct BaseSpec {
    pub version: u8,
    pub pool: Vec<String>,
    pub tree: TreeSpec,
    pub choices: Vec<u16>,
    pub surplus_fat: u8,
    pub lib_ops: Option<Vec<Op>>,
}

#[derive(Clone, Debug, Serialize, Deserialize)]
pub struct CorruptCase {
    pub base: BaseSpec,
    pub corrs: Vec<Corr>,
    pub script: Vec<BOp>,
    /// raw input (hex) instead of base+corruptions: saved fuzzer findings
    #[serde(default)]
    pub raw_hex: Option<String>,
}

pub fn base_strategy() -> BoxedStrategy<BaseSpec> {
    let mut p = Profile::c01();
    p.query = 0;
    p.reopen = 0;
    p.bad = 0;
    p.fancy = 0;
    p.max_ops = 30;
    p.max_size = 9000;
    let surplus = prop_oneof![16 => Just(0u8), 2 => 1u8..4, 2 => 108u8..=111, 1 => 236u8..=240];
    (
        proptest::sample::select(vec![3u8, 3, 4]),
        pool_strategy(NameProfile::Plain, 3, 12),
        tree_strategy(16),
        vec(any::<u16>(), 0..30),
        surplus,
        proptest::option::weighted(0.3, vec(op_strategy(&p), 1..=30)),
    )
        .prop_map(|(version, pool, tree, choices, surplus_fat, lib_ops)| BaseSpec { version, pool, tree, choices, surplus_fat, lib_ops })
        .boxed()
}

pub fn build_base(b: &BaseSpec) -> Result<Vec<u8>, Fail> {
    if let Some(ops) = &b.lib_ops {
        let mut eng = Engine::new(b.version, None, b.pool.clone(), Oracles::default())?;
        let (r, _) = run_ops(&mut eng, ops, None);
        r?;
        eng.close_all_handles()?;
        Ok(eng.snapshot())
    } else {
        let model = build_model(&b.tree, &b.pool);
        let surplus = if b.version == 4 && b.surplus_fat > 3 { 0 } else { b.surplus_fat as usize };
        let (img, _) = synthesize(&model, b.version, &b.choices, surplus);
        Ok(img)
    }
}

fn target_strategy_any() -> BoxedStrategy<Target> {
    prop_oneof![
        4 => (0u8..18).prop_map(Target::Header),
        3 => Just(Target::DifatCell),
        6 => (0u8..9).prop_map(Target::FatCell),
        4 => (0u8..4).prop_map(Target::MiniFatCell),
        10 => (0u8..5, 0u8..17).prop_map(|(class, field)| Target::Entry { class, field }),
        2 => Just(Target::Truncate),
        1 => Just(Target::Extend),
        1 => Just(Target::SwapSectors),
        2 => Just(Target::RawByte),
        3 => (0u8..10).prop_map(Target::Cycle),
        2 => (0u8..7).prop_map(Target::UncoveredRef),
    ]
    .boxed()
}

pub fn corr_strategy(t: BoxedStrategy<Target>) -> BoxedStrategy<Corr> {
    (t, any::<u16>(), any::<u8>(), any::<u32>()).prop_map(|(target, sel, val, raw)| Corr { target, sel, val, raw }).boxed()
}

pub fn hop_read_strategy() -> BoxedStrategy<HOp> {
    let ext_i = proptest::sample::select(vec![0i64, 1, -1, 64, -64, i32::MAX as i64, i32::MIN as i64, 1 << 32, -(1i64 << 32), i64::MAX, i64::MIN, i64::MIN + 1]);
    let ext_u = proptest::sample::select(vec![0u64, 1, 63, 64, 4095, 4096, u32::MAX as u64, 1 << 32, 1 << 62, i64::MAX as u64, (i64::MAX as u64) + 1, u64::MAX]);
    prop_oneof![
        6 => proptest::sample::select(vec![0u32, 1, 63, 64, 65, 1000, 1024, 4096, 5000, 70000]).prop_map(HOp::Read),
        2 => proptest::sample::select(vec![1u32, 64, 4096, 5000]).prop_map(HOp::ReadExact),
        3 => any::<u16>().prop_map(HOp::FillConsume),
        3 => Just(HOp::ReadToEnd),
        2 => ext_u.prop_map(HOp::SeekStart),
        2 => ext_i.clone().prop_map(HOp::SeekEnd),
        2 => ext_i.prop_map(HOp::SeekCur),
        4 => (any::<u16>(), -70i16..70).prop_map(|(f, d)| HOp::SeekFrac(f, d)),
        1 => Just(HOp::Len),
        1 => Just(HOp::Pos),
    ]
    .boxed()
}

fn read_script_strategy() -> BoxedStrategy<Vec<BOp>> {
    let bop = prop_oneof![
        2 => Just(BOp::Walk),
        1 => Just(BOp::ListRoot),
        2 => Just(BOp::QueryAll),
        1 => proptest::sample::select(vec!["/", "/a", "/a/b", "a/../..", "/Root Entry", "/x/y/z"]).prop_map(|s| BOp::QueryPath(s.to_string())),
        4 => (any::<u16>(), vec(hop_read_strategy(), 1..10)).prop_map(|(sel, script)| BOp::Stream { sel, script }),
        3 => vec(hop_read_strategy(), 1..8).prop_map(|script| BOp::AllStreams { script }),
        2 => (any::<u16>(), 0u8..6, vec(hop_read_strategy(), 1..6)).prop_map(|(sel, k, script)| BOp::IterWhileStream { sel, k, script }),
    ];
    vec(bop, 1..8).boxed()
}

fn strategy(_tier: Tier) -> BoxedStrategy<CorruptCase> {
    (base_strategy(), vec(corr_strategy(target_strategy_any()), 1..=4), read_script_strategy())
        .prop_map(|(base, corrs, script)| CorruptCase { base, corrs, script, raw_hex: None })
        .boxed()
}

pub fn unhex(s: &str) -> Vec<u8> {
    (0..s.len() / 2).filter_map(|i| u8::from_str_radix(&s[2 * i..2 * i + 2], 16).ok()).collect()
}

/// Builds the damaged input of a case: (bytes, number of corruptions applied, descriptions).
/// Returns the damaged image, the number of corruptions that applied, their descriptions
/// and their kinds (variant names of `Target`, for the class counters in the evidence).
pub fn damaged_input(c: &CorruptCase) -> Result<(Vec<u8>, usize, Vec<String>, Vec<String>), Fail> {
    if let Some(h) = &c.raw_hex {
        return Ok((unhex(h), 1, vec!["raw input".into()], vec![]));
    }
    let mut img = build_base(&c.base)?;
    let parsed = refparse::parse(&img).map_err(|e| Fail::new("harness|parse", e))?;
    let mut applied = 0;
    let mut desc = Vec::new();
    let mut kinds = Vec::new();
    for co in c.corrs.iter() {
        if let Some(d) = apply(&mut img, &parsed, co) {
            applied += 1;
            desc.push(d);
            let k = format!("{:?}", co.target);
            let k = k.split(|ch: char| ch == '(' || ch == ' ' || ch == '{').next().unwrap_or("").to_string();
            let k = format!("applied_{}", k);
            if !kinds.contains(&k) {
                kinds.push(k);
            }
        }
    }
    Ok((img, applied, desc, kinds))
}

pub const MEM_BASE: usize = 8 << 20;
pub const MEM_FACTOR: usize = 4096;

/// The library calls run on a thread with a 2 MiB stack (Rust's default for spawned
/// threads), so that recursion proportional to the input shows up as a crash.
pub fn read_only_check(bytes: &[u8], script: &[BOp], rep: &mut CaseReport) -> Result<bool, Fail> {
    std::thread::scope(|scope| {
        std::thread::Builder::new()
            .stack_size(2 << 20)
            .spawn_scoped(scope, || read_only_check_inner(bytes, script, rep))
            .expect("spawn")
            .join()
            .unwrap_or_else(|_| Err(Fail::new("harness|thread", "checker thread panicked")))
    })
}

fn read_only_check_inner(bytes: &[u8], script: &[BOp], rep: &mut CaseReport) -> Result<bool, Fail> {
    let mut accepted = false;
    let default_script = vec![
        BOp::Walk,
        BOp::ListRoot,
        BOp::QueryAll,
        BOp::IterWhileStream { sel: 0, k: 1, script: vec![HOp::Read(100), HOp::SeekStart(0), HOp::FillConsume(100)] },
        BOp::AllStreams { script: vec![HOp::Read(100), HOp::FillConsume(40000), HOp::SeekEnd(i64::MIN), HOp::SeekCur(i64::MIN), HOp::SeekStart(u64::MAX), HOp::SeekFrac(30000, 0), HOp::ReadToEnd, HOp::Pos, HOp::Len] },
    ];
    for strict in [false, true] {
        let base = memtrack::begin();
        let io = Io::from_bytes(bytes.to_vec());
        let opened = guard(if strict { "open_strict" } else { "open" }, || open_options(None, strict).open_with(io))?;
        if let Ok(mut c) = opened {
            if !strict {
                accepted = true;
            }
            let mut st = BlindStats::default();
            let mut trace = Vec::new();
            let r = run_blind(&mut c, script, &mut st, &mut trace).and_then(|_| run_blind(&mut c, &default_script, &mut st, &mut trace));
            if let Err(f) = r {
                rep.trace = trace;
                return Err(f);
            }
            drop(c);
            if let Err(f) = orphaned_handles(bytes, strict, false, &mut st, &mut trace) {
                rep.trace = trace;
                return Err(f);
            }
            if st.streams_opened > 0 && !rep.classes.iter().any(|x| x == "stream_opened_on_damaged") {
                rep.classes.push("stream_opened_on_damaged".into());
            }
        }
        // the input copy held by the backend is part of the measurement: allow for it
        let peak = memtrack::peak_since(base);
        let bound = MEM_BASE + MEM_FACTOR * bytes.len() + 2 * bytes.len();
        if peak > bound {
            return Err(Fail::new(
                format!("memory|{}", if strict { "strict" } else { "permissive" }),
                format!("peak live allocation {} bytes for an input of {} bytes exceeds the bound 8 MiB + 4096 x len = {}", peak, bytes.len(), bound),
            ));
        }
    }
    Ok(accepted)
}

fn report(c: &CorruptCase) -> CaseReport {
    let mut rep = CaseReport { evaluations: 1, ..CaseReport::default() };
    let (bytes, applied, desc, kinds) = match damaged_input(c) {
        Ok(x) => x,
        Err(f) => {
            // the base history itself failed: that is another property's business
            if f.key.starts_with("harness|") {
                rep.fail = Some(f);
            } else {
                rep.excluded = 1;
            }
            return rep;
        }
    };
    match read_only_check(&bytes, &c.script, &mut rep) {
        Ok(accepted) => {
            rep.classes.push(if accepted { "accepted_damaged".into() } else { "rejected_at_open".into() });
            rep.classes.extend(kinds.iter().cloned());
            if accepted {
                rep.classes.extend(kinds.iter().map(|k| format!("{}_accepted", k)));
            }
            if applied == 0 {
                rep.classes.push("no_corruption_applicable".into());
            }
            rep.nontrivial = applied > 0 && accepted;
        }
        Err(mut f) => {
            f.detail = format!("{} [corruptions: {:?}; input {} bytes]", f.detail, desc, bytes.len());
            rep.fail = Some(f);
        }
    }
    rep
}

fn worker(ctx: &Ctx) -> WorkerResult {
    run_worker(ctx, strategy(ctx.tier), report)
}

fn solo(v: &Value) -> Result<CaseReport, String> {
    run_solo(v, report)
}

/// Large valid inputs: degenerate (list-shaped) sibling trees of thousands of entries, run
/// alone in a child process (a stack overflow would kill the process).
fn deep_tree_inputs(ev: &mut Value) -> Option<Violation> {
    use crate::model::{Kind, Model, Node};
    let mut done = Vec::new();
    for (n, shape, version) in [(3000usize, 1u8, 3u8), (20000, 1, 3), (20000, 2, 4), (6000, 2, 3)] {
        let mut m = Model::new();
        if let Kind::Storage { children, .. } = &mut m.root.kind {
            // names of equal length: already in CFB order
            for i in 0..n {
                children.push(Node { name: format!("e{:06}", i), state: 0, kind: Kind::Stream { data: if i % 1000 == 0 { pattern(3, 0, 100) } else { Vec::new() } } });
            }
        }
        let (img, _) = synthesize_opts(&m, version, &[], 0, shape);
        let case = CorruptCase {
            base: BaseSpec { version, pool: vec![], tree: TreeSpec { root_clsid: [0; 16], root_state: 0, root_created: 0, root_modified: 0, items: vec![] }, choices: vec![], surplus_fat: 0, lib_ops: None },
            corrs: vec![],
            script: vec![BOp::Walk, BOp::ListRoot, BOp::QueryPath("/e000000".into()), BOp::QueryPath(format!("/e{:06}", n - 1))],
            raw_hex: Some(hex(&img)),
        };
        let dir = scratch_dir();
        let f = dir.join(format!("deep-{}-{}.json", n, shape));
        let v = serde_json::to_value(&case).unwrap_or(Value::Null);
        let _ = std::fs::write(&f, serde_json::to_string(&v).unwrap_or_default());
        let out = solo_process("C05", &f, 120);
        let _ = std::fs::remove_file(&f);
        let what = format!("valid image with a {}-entry {}-leaning sibling list (V{}, {} bytes)", n, if shape == 1 { "right" } else { "left" }, version, img.len());
        match out {
            SoloOutcome::Pass | SoloOutcome::Known(_) => done.push(what),
            SoloOutcome::Fail(k, d) => return Some(Violation { key: k, detail: format!("{}: {}", what, d), case: serde_json::json!({"note": what}), trace: vec![] }),
            SoloOutcome::Hang => return Some(Violation { key: "hang|deep_tree".into(), detail: format!("{}: exceeded 120 CPU-seconds", what), case: serde_json::json!({"note": what}), trace: vec![] }),
            SoloOutcome::Abort(m) => return Some(Violation { key: format!("abort|deep_tree|{}", m), detail: format!("{}: the process was killed ({}) - stack overflow or allocation failure", what, m), case: serde_json::json!({"note": what}), trace: vec![] }),
            SoloOutcome::Harness(m) => return Some(Violation { key: "harness|deep_tree".into(), detail: m, case: Value::Null, trace: vec![] }),
        }
    }
    ev["coverage"]["deep_tree_inputs"] = serde_json::json!(done);
    None
}

fn fuzz_extra(ctx: &Ctx, ev: &mut Value) -> Option<Violation> {
    if let Some(v) = deep_tree_inputs(ev) {
        return Some(v);
    }
    match crate::props::scenarios::huge_length_inputs() {
        Ok(done) => ev["coverage"]["huge_length_inputs"] = serde_json::json!(done),
        Err(v) => return Some(v),
    }
    crate::fuzzrun::campaign(ctx, ev, "C05", "fz_read", false, solo)
}

pub fn def() -> PropDef {
    PropDef {
        id: "C05",
        level: "exploration",
        rule: "input = valid image (synthesized foreign layout incl. DIFAT sectors, or written by the library from a generated history; V3/V4) x 1-4 corruptions from the catalogue (every header field, DIFAT cells, FAT cells by role, MiniFAT cells, every directory-entry field by entry class, tail->head cycles, truncation, extension, sector swaps, raw bytes, and the composite 'file extended beyond FAT coverage + a DIFAT cell / DIFAT chain link / first directory or MiniFAT sector / stream start pointing into the uncovered tail'; value classes 0, 1, +-1, sector count +-1, FREESECT/ENDOFCHAIN/FATSECT/DIFSECT/FFFFFFFB/FFFFFFFA, 2^31, heads of other chains, size classes around 64/4096/sector multiples and 2^32/2^63/2^64); both open modes are tried and on every accepted input a generated read-only script runs (walk, listings, per-entry queries, open_stream on listed streams with read/read_exact/fill_buf/seek incl. i64/u64 extremes/bounded read_to_end; walk() and read_root_storage() iterators kept alive and advanced around handle reads and lookups) plus a fixed default script; finally handles opened with a 1024-byte buffer on up to six listed streams are used after their CompoundFile has been dropped. Oracle: no panic; no request for the file's lock by a thread that already holds it in a conflicting mode (always-on lock observer: such a call would block for ever); worker CPU budget (20 CPU-s per case, confirmed alone under RLIMIT_CPU); peak live heap <= 8 MiB + 4096 x input length (counting allocator; oversized requests abort the worker and are confirmed alone under RLIMIT_AS). Non-trivial = >=1 corruption applied and permissive open accepted the input; distinct = distinct case JSON. Scenario steps: list-shaped sibling trees of up to 20000 entries on a 2 MiB stack; readers that claim up to 2^64-1 bytes (22 lengths around 2^32, the largest addressable file, 2^52, 2^63, 2^64 behind a small valid file), each probed alone in a child process under 60 CPU-s / 6 GiB with a 64 MiB heap bound. Thorough tier adds a libFuzzer campaign on the same oracle.",
        assumptions: &["the memory factor 4096 per input byte is derived from the format (one 4-byte DIFAT cell names a 4096-byte FAT sector, Vec growth x3), see DESIGN.md 2.5"],
        quick_cases: 6000,
        thorough_cases: 150000,
        worker,
        solo,
        hang_cpu_s: 20.0,
        extra: Some(fuzz_extra),
        confirm_known: false,
    }
}

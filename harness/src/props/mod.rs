pub mod c01;
pub mod c02;
pub mod c03;
pub mod c10;
pub mod hist;

use crate::runner::PropDef;

pub fn all() -> Vec<PropDef> {
    vec![c01::def(), c02::def(), c03::def(), c10::def()]
}

pub fn find(id: &str) -> Option<PropDef> {
    all().into_iter().find(|d| d.id == id)
}
